import Pycoin.Model.VM.Num
import Pycoin.Model.VM.Streamer
/-!
`pycoin/satoshi/checksigops.py` with the parts of `pycoin/satoshi/der.py` and `pycoin/encoding/sec.py` that decide
*which exception* (if any) the signature/public-key preprocessing raises.  The ECDSA verification itself is
`Env.checkSig`.
-/
namespace Pycoin.VM
open Pycoin.Gen.VM

/-! ### der.py: `sigdecode_der_lax` (port of Core's lax parser) -/

/-- the only exception the lax reader raises is `UnexpectedDER` (caught by `checksigs`) -/
abbrev Der := Option

/-- the long-form length loop `while lenbyte > 0 and sig[pos] == 0: pos += 1; lenbyte -= 1` -/
def skipZeros (sig : Bytes) : Nat → Nat → Nat × Nat
  | pos, 0 => (pos, 0)
  | pos, lenbyte + 1 => if sig[pos]? = some 0 then skipZeros sig (pos + 1) lenbyte else (pos, lenbyte + 1)

/-- `_lax_integer(sig, pos)`: `(position of the number, its length, position after it)` -/
def laxInteger (sig : Bytes) (pos : Nat) : Der (Nat × Nat × Nat) := do
  let size := sig.length
  if pos = size || sig[pos]? ≠ some 0x02 then none
  let pos := pos + 1
  if pos = size then none
  let lenbyte := (← sig[pos]?).toNat
  let pos := pos + 1
  let (length, pos) ←
    if lenbyte ≥ 128 then do
      let lenbyte := lenbyte - 0x80
      if lenbyte > size - pos then none
      let (pos, lenbyte) := skipZeros sig pos lenbyte
      if lenbyte ≥ 4 then none
      pure (beNat (slice sig pos (pos + lenbyte)), pos + lenbyte)
    else pure (lenbyte, pos)
  if length > size - pos then none
  pure (pos, length, pos + length)

/-- `sigdecode_der_lax(sig_der)`: `(r, s)`; `none` = `UnexpectedDER` -/
def sigdecodeDerLax (sig : Bytes) : Der (Nat × Nat) := do
  let size := sig.length
  let pos := 0
  if pos = size || sig[pos]? ≠ some 0x30 then none
  let pos := pos + 1
  if pos = size then none
  let lenbyte := (← sig[pos]?).toNat
  let pos := pos + 1
  let pos ←
    if lenbyte ≥ 128 then
      if lenbyte - 0x80 > size - pos then none else pure (pos + (lenbyte - 0x80))
    else pure pos
  let (rpos, rlen, pos) ← laxInteger sig pos
  let (spos, slen, _) ← laxInteger sig pos
  pure (beNat (slice sig rpos (rpos + rlen)), beNat (slice sig spos (spos + slen)))

/-! ### checksigops.py -/

def sigDer : Err := scriptErr errno_SIG_DER

/-- list indexing that the preceding checks keep in range (`IndexError` otherwise) -/
def at' (sig : Bytes) (i : Nat) : M Nat :=
  match sig[i]? with
  | some b => .ok b.toNat
  | none => .error (.py "IndexError")

/-- `_check_valid_signature_1` + `_check_valid_signature_2` (port of `IsValidSignatureEncoding`) -/
def checkValidSignature (sig : Bytes) : M Unit := do
  let ls := sig.length
  if ls < 9 || ls > 73 then .error sigDer
  if (← at' sig 0) ≠ 0x30 then .error sigDer
  if (← at' sig 1) ≠ ls - 3 then .error sigDer
  let rLen ← at' sig 3
  if 5 + rLen ≥ ls then .error sigDer
  let sLen ← at' sig (5 + rLen)
  if rLen + sLen + 7 ≠ ls then .error sigDer
  if (← at' sig 2) ≠ 2 then .error sigDer
  if rLen = 0 then .error sigDer
  if (← at' sig 4) ≥ 128 then .error sigDer
  if rLen > 1 && (← at' sig 4) = 0 && (← at' sig 5) < 128 then .error sigDer
  if (← at' sig (rLen + 4)) ≠ 2 then .error sigDer
  if sLen = 0 then .error sigDer
  if (← at' sig (rLen + 6)) ≥ 128 then .error sigDer
  if sLen > 1 && (← at' sig (rLen + 6)) = 0 && (← at' sig (rLen + 7)) < 128 then .error sigDer

/-- `check_low_der_signature`: out-of-range `r`/`s` are not "high" (they fail to verify); else `s > order // 2` -/
def checkLowDerSignature (r s : Nat) : M Unit :=
  if r ≥ generatorOrder || s ≥ generatorOrder then pure ()
  else if s > generatorOrder / 2 then .error (scriptErr errno_SIG_HIGH_S) else pure ()

/-- `check_defined_hashtype_signature` (non-empty `sig`): `sig[-1] & ~SIGHASH_ANYONECANPAY` -/
def checkDefinedHashtypeSignature (sig : Bytes) : M Unit :=
  match sig.getLast? with
  | none => .error (.script none)
  | some b =>
    let hashType := andNot b.toNat SIGHASH_ANYONECANPAY
    if hashType < SIGHASH_ALL || hashType > SIGHASH_SINGLE then .error (scriptErr errno_SIG_HASHTYPE) else pure ()

/-- outcome of `parse_and_check_signature_blob` inside the `try` of `checksigs` -/
inductive SigParse
  | parsed                    -- `(sig_pair, signature_type)` available
  | unparseable               -- `UnexpectedDER` / `ValueError`: caught, `sig_pair = None`
  deriving DecidableEq, Repr

/-- `parse_and_check_signature_blob(sig_blob, flags, vm)` -/
def parseAndCheckSignatureBlob (sigBlob : Bytes) (flags : Nat) : M SigParse := do
  if sigBlob.length = 0 then return .unparseable
  if hasFlag flags (VERIFY_DERSIG ||| VERIFY_LOW_S ||| VERIFY_STRICTENC) then checkValidSignature sigBlob
  if hasFlag flags VERIFY_STRICTENC then checkDefinedHashtypeSignature sigBlob
  match sigdecodeDerLax sigBlob.dropLast with
  | none => return .unparseable
  | some (r, s) =>
    if hasFlag flags VERIFY_LOW_S then checkLowDerSignature r s
    return .parsed

/-- `check_public_key_encoding` -/
def checkPublicKeyEncoding (blob : Bytes) : M Unit :=
  let ok := match blob with
    | fb :: _ => blob.length ≥ 33 && ((fb = 4 && blob.length = 65) || ((fb = 2 || fb = 3) && blob.length = 33))
    | [] => false
  if ok then pure () else .error (scriptErr errno_PUBKEYTYPE)

/-- the length/prefix part of `public_pair_for_blob(blob, generator)`: 33 bytes with 02/03, 65 bytes with 04/06/07.
What remains (coordinates below `p`, on the curve, hybrid parity) is inside `Env.checkSig`. -/
def pubkeyShapeOk (blob : Bytes) : Bool :=
  (blob.length = 33 && (blob.head? = some 2 || blob.head? = some 3)) ||
  (blob.length = 65 && (blob.head? = some 4 || blob.head? = some 6 || blob.head? = some 7))

/-- `checksig(vm, sig_pair, signature_type, pair_blob, blobs_to_delete, …)`; `parsed = false` is `sig_pair is None`;
`code` is the script code the sighash closure will hash (computed, like `sighash_cache`, only when a key gets this far) -/
def checksig (env : Env) (cfg : Config) (parsed : Bool) (sigBlob pairBlob : Bytes) (code : M Bytes) : M Bool := do
  if hasFlag cfg.flags VERIFY_STRICTENC then checkPublicKeyEncoding pairBlob
  if hasFlag cfg.flags VERIFY_WITNESS_PUBKEYTYPE then
    if pairBlob.length ≠ 33 || !(pairBlob.head? = some 2 || pairBlob.head? = some 3) then
      .error (scriptErr errno_WITNESS_PUBKEYTYPE)
  if !parsed then return false
  if !pubkeyShapeOk pairBlob then return false
  return env.checkSig sigBlob pairBlob (← code) cfg.witness

/-- inner `while len(sig_blobs_remaining) < len(public_pair_blobs)` loop: `some rest` after a `break`,
`none` when it runs out (`else:` branch).  `pubs` is top-most key first. -/
def matchKeys (env : Env) (cfg : Config) (parsed : Bool) (sigBlob : Bytes) (code : M Bytes) (nRemaining : Nat) :
    List Bytes → M (Option (List Bytes))
  | [] => pure none
  | pk :: rest =>
    if nRemaining < rest.length + 1 then do
      if ← checksig env cfg parsed sigBlob pk code then pure (some rest)
      else matchKeys env cfg parsed sigBlob code nRemaining rest
    else pure none

/-- outer `while len(sig_blobs_remaining) > 0` loop; `sigs`, `pubs` top-most first; `true` = all matched -/
def checksigsLoop (env : Env) (cfg : Config) (code : M Bytes) : List Bytes → List Bytes → M Bool
  | [], _ => pure true
  | sig :: remaining, pubs => do
    let parsed := (← parseAndCheckSignatureBlob sig cfg.flags) == .parsed
    match ← matchKeys env cfg parsed sig code remaining.length pubs with
    | some pubs => checksigsLoop env cfg code remaining pubs
    | none => pure false

/-- `checksigs(vm, sig_blobs, public_pair_blobs)`; arguments top-most first (the Python lists reversed) -/
def checksigs (env : Env) (cfg : Config) (sigs pubs : List Bytes) (s : State) : M State := do
  let anyNonblank := hasFlag cfg.flags VERIFY_NULLFAIL && sigs.any (fun b => b.length > 0)
  let code0 := cfg.script.drop s.beginCodeHash
  -- `sig_for_hash_type_f`: legacy deletes every signature push (list in Python order), witness does not
  let code : M Bytes := if cfg.witness then pure code0 else deleteSignatures code0 sigs.reverse
  if ← checksigsLoop env cfg code sigs pubs then pure (push VM_TRUE s)
  else if anyNonblank then .error (scriptErr errno_NULLFAIL)
  else pure (push VM_FALSE s)

def do_CHECKSIG (env : Env) (cfg : Config) (s : State) : M State := do
  let (pairBlob, s) ← pop s
  let (sigBlob, s) ← pop s
  checksigs env cfg [sigBlob] [pairBlob] s

def do_CHECKMULTISIG (env : Env) (cfg : Config) (s : State) : M State := do
  let (keyCount, s) ← popInt cfg.flags s
  if keyCount < 0 || keyCount > 20 then .error (scriptErr errno_PUBKEY_COUNT)
  let (pubs, s) ← popN keyCount.toNat s
  let (sigCount, s) ← popInt cfg.flags s
  if sigCount < 0 || sigCount > keyCount then .error (scriptErr errno_SIG_COUNT)
  let (sigs, s) ← popN sigCount.toNat s
  let (hackByte, s) ← pop s
  if hasFlag cfg.flags VERIFY_NULLDUMMY && hackByte != [] then .error (scriptErr errno_SIG_NULLDUMMY)
  let s ← checksigs env cfg sigs pubs s
  pure { s with opCount := s.opCount + keyCount }

def verifyTop (code : Nat) (s : State) : M State := do
  let (x, s) ← pop s
  if ← boolFromScriptBytes x then pure s else .error (scriptErr code)

def do_CHECKMULTISIGVERIFY (env : Env) (cfg : Config) (s : State) : M State := do
  verifyTop errno_VERIFY (← do_CHECKMULTISIG env cfg s)

def do_CHECKSIGVERIFY (env : Env) (cfg : Config) (s : State) : M State := do
  verifyTop errno_VERIFY (← do_CHECKSIG env cfg s)

end Pycoin.VM
