import Pycoin.Py.Bytes
/-!
C03 (model side) — the *types* of the tables that `translate/gen_vm.py` regenerates from
`BitcoinVM.INSTRUCTION_LOOKUP` and `BitcoinScriptStreamer.decoder` on every run
(`lean/Pycoin/Gen/VM.lean`).  Hand-written: the vocabulary of handler identities; generated:
which identity sits at which byte.
-/
namespace Pycoin.VM

/-- identity of a function found in `INSTRUCTION_LOOKUP` (module + name for module-level functions,
closure contents for the factory-made ones).  `unknown` = anything the translator does not recognise:
the model refuses to run it (`err UnknownHandler`), which shows up as a broken correspondence. -/
inductive Handler
  -- make_instruction_lookup.py
  | badInstruction (v : Nat)          -- `_make_bad_instruction(v)`
  | noOp                              -- `_no_op`
  -- miscops.py
  | lambda0                           -- `lambda s: 0` of `extra_opcodes`
  | badOpcode (errno : Nat)           -- `make_bad_opcode(name, …, err)`
  | discourageNops
  | mkIf (reverse : Bool)             -- `make_if(reverse_bool)`
  | misc_ELSE | misc_ENDIF | misc_RESERVED | misc_CODESEPARATOR | misc_TOALTSTACK | misc_FROMALTSTACK
  | misc_CHECKLOCKTIMEVERIFY | misc_CHECKSEQUENCEVERIFY | misc_IFDUP
  -- stackops.py
  | stack_NOP | stack_VER | stack_RESERVED1 | stack_RESERVED2 | stack_RETURN
  | stack_2DROP | stack_2DUP | stack_3DUP | stack_2OVER | stack_2ROT | stack_2SWAP | stack_IFDUP
  | stack_DROP | stack_DUP | stack_NIP | stack_OVER | stack_ROT | stack_SWAP | stack_TUCK
  | stack_RIPEMD160 | stack_SHA1 | stack_SHA256 | stack_HASH160 | stack_HASH256
  -- intops.py
  | int_VERIFY | int_DEPTH | int_PICK | int_ROLL | int_SIZE | int_EQUAL | int_EQUALVERIFY
  | int_ADD | int_SUB | int_BOOLAND | int_BOOLOR | int_NUMEQUAL | int_NUMNOTEQUAL
  | int_LESSTHAN | int_GREATERTHAN | int_LESSTHANOREQUAL | int_GREATERTHANOREQUAL | int_MIN | int_MAX
  | int_NUMEQUALVERIFY | int_WITHIN | int_1ADD | int_1SUB | int_NEGATE | int_ABS | int_NOT | int_0NOTEQUAL
  -- checksigops.py
  | sig_CHECKSIG | sig_CHECKSIGVERIFY | sig_CHECKMULTISIG | sig_CHECKMULTISIGVERIFY
  | unknown (name : String)
  deriving DecidableEq, Repr, Inhabited

/-- one entry of `ScriptStreamer.decoder` (closure contents of the three handler factories) -/
inductive Decoder
  | none                                                        -- byte is not a data opcode
  | const (data : Bytes)                                        -- `make_const_handler(data)`
  | sized (size : Nat) (constValues : List Bytes)               -- `make_sized_handler(size, const_values, …)`
  | variable (lenSize : Nat) (sizedValues : List Nat) (minSize : Nat)
      -- `make_variable_handler(dec_f, sized_values, min_size, …)`, `dec_f` reading `lenSize` little-endian bytes
  | unknownFmt (what : String)                                  -- anything the translator does not recognise
  deriving DecidableEq, Repr, Inhabited

end Pycoin.VM
