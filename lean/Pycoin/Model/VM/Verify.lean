import Pycoin.Model.VM.Eval
/-!
`pycoin/coins/bitcoin/SolutionChecker.py` (`check_solution`, `puzzle_and_solution_iterator`,
`_solution_script_to_stack`), `P2SChecker.py`, `SegwitChecker.py` (`witness_program_tuple`,
`_witness_program_version`, `_check_witness_program_v0`).
Lists named `…Py` are in Python order (bottom of the stack first).
-/
namespace Pycoin.VM
open Pycoin.Gen.VM

/-- `tx_context` as built by `tx_context_for_idx` -/
structure SolCtx where
  solutionScript : Bytes
  puzzleScript : Bytes
  witnessPy : List Bytes          -- `witness_solution_stack`
  tx : TxCtx
  deriving Repr

/-- one tuple yielded by `puzzle_and_solution_iterator`: `(puzzle_script, solution_stack, flags, sighash_f)` -/
structure Stage where
  puzzle : Bytes
  solutionStackPy : List Bytes
  flags : Nat
  witness : Bool                  -- which sighash closure
  deriving Repr

/-- `P2SChecker.is_pay_to_script_hash`: length 23, first byte OP_HASH160, second byte 20, last byte OP_EQUAL -/
def isPayToScriptHash (spk : Bytes) : Bool :=
  spk.length == 23 && spk.head? == some (UInt8.ofNat p2s_OP_HASH160) && spk[1]? == some 20 &&
    spk.getLast? == some (UInt8.ofNat p2s_OP_EQUAL)

/-- `SegwitChecker._witness_program_version` -/
def witnessProgramVersion (script : Bytes) : Option Nat :=
  let size := script.length
  if size < 4 || size > 42 then none
  else match script with
  | first :: b1 :: _ =>
    if b1.toNat + 2 ≠ size then none
    else if first.toNat = segwit_OP_0 then some 0
    else if segwit_OP_1 ≤ first.toNat && first.toNat ≤ segwit_OP_16 then some (first.toNat - segwit_OP_1 + 1)
    else none
  | _ => none

/-- `_check_witness_program_v0(witness_solution_stack, witness_program)`: `(stack, puzzle_script)` -/
def checkWitnessProgramV0 (env : Env) (witnessPy : List Bytes) (program : Bytes) : M (List Bytes × Bytes) :=
  if program.length = 32 then
    match witnessPy.getLast? with
    | none => .error (scriptErr errno_WITNESS_PROGRAM_WITNESS_EMPTY)
    | some puzzle =>
      if env.sha256 puzzle ≠ program then .error (scriptErr errno_WITNESS_PROGRAM_MISMATCH)
      else pure (witnessPy.dropLast, puzzle)
  else if program.length = 20 then
    if witnessPy.length ≠ 2 then .error (scriptErr errno_WITNESS_PROGRAM_MISMATCH)
    else do
      -- `_puzzle_script_for_len20_segwit`
      let p ← compilePushData program
      pure (witnessPy, segwitV0Len20Prefix ++ p ++ segwitV0Len20Postfix)
  else .error (scriptErr errno_WITNESS_PROGRAM_WRONG_LENGTH)

/-- `witness_program_tuple(tx_context, puzzle_script, solution_stack, flags, is_p2sh)` -/
def witnessProgramTuple (env : Env) (c : SolCtx) (puzzle : Bytes) (flags : Nat) (isP2sh : Bool) :
    M (Option Stage) := do
  if !hasFlag flags VERIFY_WITNESS then return none
  match witnessProgramVersion puzzle with
  | none =>
    if c.witnessPy.length > 0 then .error (scriptErr errno_WITNESS_UNEXPECTED)
    return none
  | some version =>
    let program := puzzle.drop 2
    -- the scriptSig must be exactly empty (native) or exactly the canonical push of the program (P2SH)
    let expected ← if isP2sh then compilePushData puzzle else pure []
    if c.solutionScript ≠ expected then
      .error (scriptErr (if isP2sh then errno_WITNESS_MALLEATED_P2SH else errno_WITNESS_MALLEATED))
    if version = 0 then
      let (stackPy, puzzle) ← checkWitnessProgramV0 env c.witnessPy program
      if stackPy.any (fun s => s.length > MAX_BLOB_LENGTH) then .error (scriptErr errno_PUSH_SIZE)
      return some ⟨puzzle, stackPy, flags ||| VERIFY_CLEANSTACK, true⟩
    else if hasFlag flags VERIFY_DISCOURAGE_UPGRADABLE_WITNESS_PROGRAM then
      .error (scriptErr errno_DISCOURAGE_UPGRADABLE_WITNESS_PROGRAM)
    else
      -- undefined version: run the script OP_1 (one true item, passes CLEANSTACK)
      return some ⟨op1Script, [], flags, true⟩

/-- one pass of the `for` loop body of `check_solution`: run the VM, truth test; returns the final stack (Python order) -/
def runStage (env : Env) (c : SolCtx) (st : Stage) : M (List Bytes) := do
  let s ← evalScript env ⟨st.puzzle, c.tx, st.flags, st.witness⟩ st.solutionStackPy.reverse
  match s.stack with
  | [] => .error (scriptErr errno_EVAL_FALSE)
  | top :: _ =>
    if !(← boolFromScriptBytes top) then .error (scriptErr errno_EVAL_FALSE)
    pure s.stack.reverse

/-- `BitcoinSolutionChecker.check_solution(tx_context, flags)` with the generator of
`puzzle_and_solution_iterator` unrolled in execution order -/
def checkSolution (env : Env) (c : SolCtx) (flags : Nat) : M Unit := do
  -- _solution_script_to_stack
  if hasFlag flags VERIFY_SIGPUSHONLY then checkScriptPushOnly c.solutionScript
  let f1 := andNot flags (VERIFY_MINIMALIF ||| VERIFY_WITNESS_PUBKEYTYPE)
  let sol ← evalScript env ⟨c.solutionScript, c.tx, f1, false⟩ []
  let solutionStackPy := sol.stack.reverse
  -- first yield
  let stage1 : Stage := ⟨c.puzzleScript, solutionStackPy, f1, false⟩
  let stackPy ← runStage env c stage1
  -- p2s_program_tuple
  let (last, stackPy, puzzle, solutionStackPy, isP2sh) ←
    if hasFlag f1 VERIFY_P2SH && isPayToScriptHash c.puzzleScript then do
      checkScriptPushOnly c.solutionScript
      match solutionStackPy.getLast? with
      | none => .error (.py "IndexError")
      | some redeem =>
        let st : Stage := ⟨redeem, solutionStackPy.dropLast, andNot f1 VERIFY_P2SH, false⟩
        let stackPy ← runStage env c st
        pure (st, stackPy, redeem, solutionStackPy.dropLast, true)
    else pure (stage1, stackPy, c.puzzleScript, solutionStackPy, false)
  -- witness_program_tuple gets the *unfiltered* flags
  let (last, stackPy) ← match ← witnessProgramTuple env c puzzle flags isP2sh with
    | some st => do pure (st, ← runStage env c st)
    | none => pure (last, stackPy)
  -- `if flags and flags & VERIFY_CLEANSTACK and len(stack) != 1` with the flags of the last tuple
  if hasFlag last.flags VERIFY_CLEANSTACK && stackPy.length ≠ 1 then .error (scriptErr errno_CLEANSTACK)

end Pycoin.VM
