import Pycoin.Py.Bytes
import Pycoin.Gen.VM
/-!
C03 (model side) — state, errors and Python list helpers of pycoin's script VM
(`pycoin/vm/VM.py`).  Mirrors the code that exists, deviations from consensus included.

Conventions
* the data stack and the alt stack are Lean lists with **head = top** (Python appends/pops at the end);
  lists that the Python code keeps in *Python order* (bottom first: `solution_stack`, the witness) are
  named `…Py` and converted at the boundary with `List.reverse`;
* `flags : Nat` and Python's `flags & X` truthiness is `hasFlag`;
* an exception is `Err`: `script (some n)` = `ScriptError(msg, n)`, `script none` = `ScriptError(msg)` raised
  without an errno (`error_code()` is `None`), `py name` = any other Python exception class.
-/
namespace Pycoin.VM
open Pycoin.Gen.VM

inductive Err
  | script (code : Option Nat)
  | py (name : String)
  deriving DecidableEq, Repr, Inhabited

abbrev M := Except Err

def scriptErr (n : Nat) : Err := .script (some n)

/-- printed tag: the errno *name* from the generated table (first name carrying the number), `None`, or the
Python exception class -/
def Err.tag : Err → String
  | .script (some n) => match errnoTable.find? (·.2 = n) with
    | some (k, _) => k
    | none => "errno" ++ toString n
  | .script none => "None"
  | .py s => s

/-- what the VM reads from `tx_context` -/
structure TxCtx where
  lockTime : Nat
  sequence : Nat
  version : Nat
  deriving DecidableEq, Repr, Inhabited

/-- opaque parameters: the hash functions and the signature check proper.
`checkSig sigBlob pubkey scriptCode witness` stands for
`sec_to_public_pair(pubkey)` succeeding **and** `generator.verify(pair, sighash(sig_type, scriptCode), (r, s))`,
where `scriptCode` is what the VM's `signature_for_hash_type_f` hashes (legacy: `script[begin_code_hash:]` with the
signature pushes deleted; witness: `script[begin_code_hash:]`) — the content of C01 + C04. -/
structure Env where
  ripemd160 : Bytes → Bytes
  sha1 : Bytes → Bytes
  sha256 : Bytes → Bytes
  checkSig : Bytes → Bytes → Bytes → Bool → Bool

/-- constructor arguments of `VM(script, tx_context, signature_for_hash_type_f, flags, …)`;
`witness` says which of the two sighash closures the VM was given (`_make_witness_sighash_f` or `_make_sighash_f`) -/
structure Config where
  script : Bytes
  ctx : TxCtx
  flags : Nat
  witness : Bool
  deriving Repr

/-- `ConditionalStack`: the two counters -/
structure CondStack where
  trueCount : Nat := 0
  falseCount : Nat := 0
  deriving DecidableEq, Repr, Inhabited

/-- mutable fields of `VM` -/
structure State where
  pc : Nat := 0
  stack : List Bytes := []       -- head = top
  altstack : List Bytes := []    -- head = top
  cond : CondStack := {}
  opCount : Int := 0
  beginCodeHash : Nat := 0
  deriving DecidableEq, Repr, Inhabited

/-- Python `flags & X` used as a truth value -/
def hasFlag (flags x : Nat) : Bool := flags &&& x != 0

/-- Python `a & ~m` for a non-negative `a` -/
def andNot (a m : Nat) : Nat := a ^^^ (a &&& m)

/-! ### `VM.append / pop / __getitem__` -/

def invalidStack : Err := scriptErr errno_INVALID_STACK_OPERATION

def push (x : Bytes) (s : State) : State := { s with stack := x :: s.stack }

/-- `vm.pop()` -/
def pop (s : State) : M (Bytes × State) :=
  match s.stack with
  | [] => .error invalidStack
  | x :: r => .ok (x, { s with stack := r })

/-- `vm[-k]`, `k ≥ 1` -/
def peek (k : Nat) (s : State) : M Bytes :=
  match s.stack[k - 1]? with
  | some x => .ok x
  | none => .error invalidStack

/-- `vm.pop(-k)`, `k ≥ 1` -/
def popAt (k : Nat) (s : State) : M (Bytes × State) :=
  match s.stack[k - 1]? with
  | some x => .ok (x, { s with stack := s.stack.eraseIdx (k - 1) })
  | none => .error invalidStack

/-- `[vm.pop() for _ in range(n)]`: items in popping order (top-most first) -/
def popN : Nat → State → M (List Bytes × State)
  | 0, s => .ok ([], s)
  | n + 1, s => do
    let (x, s) ← pop s
    let (xs, s) ← popN n s
    pure (x :: xs, s)

end Pycoin.VM
