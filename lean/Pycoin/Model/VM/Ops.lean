import Pycoin.Model.VM.Num
import Pycoin.Model.VM.CondStack
/-!
`pycoin/satoshi/stackops.py`, `intops.py`, `miscops.py` — one definition per Python function, same order of
pops / pushes / raises.  A handler is `State → M State` (the error aborts the whole evaluation, so partial
mutation before a raise is not observable).
-/
namespace Pycoin.VM
open Pycoin.Gen.VM

/-! ## stackops.py (the `stack` argument is the VM: `pop`, `append`, `[-k]`, `pop(-k)`) -/

def do_2DROP (s : State) : M State := do
  let (_, s) ← pop s
  let (_, s) ← pop s
  pure s

def do_2DUP (s : State) : M State := do
  let s := push (← peek 2 s) s
  pure (push (← peek 2 s) s)

def do_3DUP (s : State) : M State := do
  let s := push (← peek 3 s) s
  let s := push (← peek 3 s) s
  pure (push (← peek 3 s) s)

def do_2OVER (s : State) : M State := do
  let s := push (← peek 4 s) s
  pure (push (← peek 4 s) s)

def do_2ROT (s : State) : M State := do
  let (x, s) ← popAt 6 s
  let s := push x s
  let (y, s) ← popAt 6 s
  pure (push y s)

def do_2SWAP (s : State) : M State := do
  let (x, s) ← popAt 4 s
  let s := push x s
  let (y, s) ← popAt 4 s
  pure (push y s)

/-- `if stack[-1]: stack.append(stack[-1])` — truthiness of the *byte string* (non-empty), not of its value -/
def do_IFDUP (s : State) : M State := do
  let top ← peek 1 s
  if !top.isEmpty then pure (push (← peek 1 s) s) else pure s

def do_DROP (s : State) : M State := do
  let (_, s) ← pop s
  pure s

def do_DUP (s : State) : M State := do pure (push (← peek 1 s) s)

def do_NIP (s : State) : M State := do
  let (v, s) ← pop s
  let (_, s) ← pop s
  pure (push v s)

def do_OVER (s : State) : M State := do pure (push (← peek 2 s) s)

def do_ROT (s : State) : M State := do
  let (x, s) ← popAt 3 s
  pure (push x s)

def do_SWAP (s : State) : M State := do
  let (x, s) ← popAt 2 s
  pure (push x s)

def do_TUCK (s : State) : M State := do
  let (v1, s) ← pop s
  let (v2, s) ← pop s
  pure (push v1 (push v2 (push v1 s)))

def hashOp (h : Bytes → Bytes) (s : State) : M State := do
  let (x, s) ← pop s
  pure (push (h x) s)

def do_RIPEMD160 (env : Env) := hashOp env.ripemd160
def do_SHA1 (env : Env) := hashOp env.sha1
def do_SHA256 (env : Env) := hashOp env.sha256
/-- `encoding.hash.hash160 = ripemd160(sha256(x))` -/
def do_HASH160 (env : Env) := hashOp (fun x => env.ripemd160 (env.sha256 x))
/-- `double_sha256` -/
def do_HASH256 (env : Env) := hashOp (fun x => env.sha256 (env.sha256 x))

/-! ## intops.py -/

def do_VERIFY (s : State) : M State := do
  let (x, s) ← pop s
  if ← boolFromScriptBytes x then pure s else .error (scriptErr errno_VERIFY)

def do_DEPTH (s : State) : M State := pure (pushInt s.stack.length s)

/-- `v = vm.pop_nonnegative(); vm.append(vm[-v - 1])` -/
def do_PICK (flags : Nat) (s : State) : M State := do
  let (v, s) ← popNonnegative flags s
  pure (push (← peek (v + 1) s) s)

/-- `vm.append(vm.pop(-v - 1))`: `list.pop` converts its index to a C `ssize_t`, so `-v - 1 < -2^63` is an
`OverflowError` that `VM.pop` does not catch (CPython, 64-bit); `list.__getitem__` (PICK) reports `IndexError` instead.
Unreachable since `pop_int` bounds the operand to 4 bytes; kept because the code path exists. -/
def do_ROLL (flags : Nat) (s : State) : M State := do
  let (v, s) ← popNonnegative flags s
  if v ≥ 2 ^ 63 then .error (.py "OverflowError")
  let (x, s) ← popAt (v + 1) s
  pure (push x s)

def do_SIZE (s : State) : M State := do
  pure (pushInt (← peek 1 s).length s)

def do_EQUAL (s : State) : M State := do
  let (v1, s) ← pop s
  let (v2, s) ← pop s
  pure (push (boolToScriptBytes (v1 == v2)) s)

def do_EQUALVERIFY (s : State) : M State := do
  let s ← do_EQUAL s
  let (x, s) ← pop s
  if ← boolFromScriptBytes x then pure s else .error (scriptErr errno_EQUALVERIFY)

/-- `make_bin_op(binop)`: `v1, v2 = [pop_check_bounds(vm) for i in range(2)]; push_int(binop(v2, v1))` -/
def binOp (f : Int → Int → Int) (flags : Nat) (s : State) : M State := do
  let (v1, s) ← popCheckBounds flags s
  let (v2, s) ← popCheckBounds flags s
  pure (pushInt (f v2 v1) s)

/-- `make_bool_bin_op(binop)` -/
def boolBinOp (f : Int → Int → Bool) (flags : Nat) (s : State) : M State := do
  let (v1, s) ← popCheckBounds flags s
  let (v2, s) ← popCheckBounds flags s
  pure (push (boolToScriptBytes (f v2 v1)) s)

def do_ADD := binOp (fun x y => x + y)
def do_SUB := binOp (fun x y => x - y)
/-- `x and y` on integers is truthy iff both are non-zero -/
def do_BOOLAND := boolBinOp (fun x y => x != 0 && y != 0)
def do_BOOLOR := boolBinOp (fun x y => x != 0 || y != 0)
def do_NUMEQUAL := boolBinOp (fun x y => x == y)
def do_NUMNOTEQUAL := boolBinOp (fun x y => x != y)
def do_LESSTHAN := boolBinOp (fun x y => x < y)
def do_GREATERTHAN := boolBinOp (fun x y => x > y)
def do_LESSTHANOREQUAL := boolBinOp (fun x y => x ≤ y)
def do_GREATERTHANOREQUAL := boolBinOp (fun x y => x ≥ y)
def do_MIN := binOp (fun x y => min x y)
def do_MAX := binOp (fun x y => max x y)

def do_NUMEQUALVERIFY (flags : Nat) (s : State) : M State := do
  do_VERIFY (← do_NUMEQUAL flags s)

/-- `v3, v2, v1 = [vm.pop_int() for i in range(3)]; ok = v2 <= v1 < v3` -/
def do_WITHIN (flags : Nat) (s : State) : M State := do
  let (v3, s) ← popInt flags s
  let (v2, s) ← popInt flags s
  let (v1, s) ← popInt flags s
  pure (push (boolToScriptBytes (v2 ≤ v1 && v1 < v3)) s)

/-- `make_unary_num_op` -/
def unaryOp (f : Int → Int) (flags : Nat) (s : State) : M State := do
  let (v, s) ← popCheckBounds flags s
  pure (pushInt (f v) s)

def do_1ADD := unaryOp (· + 1)
def do_1SUB := unaryOp (· - 1)
def do_NEGATE := unaryOp (fun x => -x)
def do_ABS := unaryOp (fun x => (x.natAbs : Int))

def do_NOT (flags : Nat) (s : State) : M State := do
  let (v, s) ← popCheckBounds flags s
  pure (push (boolToScriptBytes (v == 0)) s)

/-- `vm.append(vm.bool_to_script_bytes(pop_check_bounds(vm) != 0))` -/
def do_0NOTEQUAL (flags : Nat) (s : State) : M State := do
  let (v, s) ← popCheckBounds flags s
  pure (push (boolToScriptBytes (v != 0)) s)

/-! ## miscops.py -/

/-- `miscops.do_OP_IFDUP`: `if vm.bool_from_script_bytes(vm[-1]): vm.append(vm[-1])` -/
def do_IFDUP_misc (s : State) : M State := do
  if ← boolFromScriptBytes (← peek 1 s) then pure (push (← peek 1 s) s) else pure s

def do_CODESEPARATOR (s : State) : M State := pure { s with beginCodeHash := s.pc }

def do_TOALTSTACK (s : State) : M State := do
  let (x, s) ← pop s
  pure { s with altstack := x :: s.altstack }

/-- `if vm.conditional_stack.all_if_true(): raise BAD_OPCODE` else `vm.op_count -= 1` -/
def do_RESERVED (s : State) : M State :=
  if s.cond.allIfTrue then .error (scriptErr errno_BAD_OPCODE) else pure { s with opCount := s.opCount - 1 }

def do_FROMALTSTACK (s : State) : M State :=
  match s.altstack with
  | [] => .error (scriptErr errno_INVALID_ALTSTACK_OPERATION)
  | x :: r => pure (push x { s with altstack := r })

def discourageNops (flags : Nat) (s : State) : M State :=
  if hasFlag flags VERIFY_DISCOURAGE_UPGRADABLE_NOPS then .error (scriptErr errno_DISCOURAGE_UPGRADABLE_NOPS) else pure s

/-- `make_if(reverse_bool)` -/
def doIf (reverseBool : Bool) (flags : Nat) (s : State) : M State := do
  if s.cond.allIfTrue then
    if s.stack.length < 1 then .error (scriptErr errno_UNBALANCED_CONDITIONAL)
    else
      let (item, s) ← pop s
      if hasFlag flags VERIFY_MINIMALIF && !(item == VM_FALSE || item == VM_TRUE) then .error (scriptErr errno_MINIMALIF)
      else
        let b ← boolFromScriptBytes item
        pure { s with cond := s.cond.opIf b reverseBool }
  else pure { s with cond := s.cond.opIf false reverseBool }

def do_ELSE (s : State) : M State := do pure { s with cond := ← s.cond.opElse }
def do_ENDIF (s : State) : M State := do pure { s with cond := ← s.cond.opEndif }

/-- `do_OP_CHECKLOCKTIMEVERIFY`; every raise after the flag test carries no errno (except `pop_int`'s).
`operand = vm[-1]; pop_int(max_size=5); vm.append(operand)`: the operand stays as it was. -/
def do_CHECKLOCKTIMEVERIFY (cfg : Config) (s : State) : M State :=
  let flags := cfg.flags
  if !hasFlag flags VERIFY_CHECKLOCKTIMEVERIFY then
    if hasFlag flags VERIFY_DISCOURAGE_UPGRADABLE_NOPS then .error (scriptErr errno_DISCOURAGE_UPGRADABLE_NOPS) else pure s
  else if cfg.ctx.sequence = 0xFFFFFFFF then .error (.script none)
  else match s.stack with
  | [] => .error (.script none)
  | top :: _ =>
    if top.length > 5 then .error (.script none) else do
    let operand ← peek 1 s
    let (maxLockTime, s) ← popInt flags s 5
    let s := push operand s
    if maxLockTime < 0 then .error (.script none)
    else if decide (maxLockTime ≥ 500000000) != decide (cfg.ctx.lockTime ≥ 500000000) then .error (.script none)
    else if maxLockTime > (cfg.ctx.lockTime : Int) then .error (.script none)
    else pure s

/-- `_check_sequence_verify(sequence, tx_context_sequence)` -/
def checkSequenceVerify (sequence txSequence : Nat) : M Unit :=
  let mask := SEQUENCE_LOCKTIME_TYPE_FLAG ||| 0xFFFF
  let a := sequence &&& mask
  let b := txSequence &&& mask
  if !((b < SEQUENCE_LOCKTIME_TYPE_FLAG && a < SEQUENCE_LOCKTIME_TYPE_FLAG) ||
       (b ≥ SEQUENCE_LOCKTIME_TYPE_FLAG && a ≥ SEQUENCE_LOCKTIME_TYPE_FLAG)) then .error (.script none)
  else if a > b then .error (.script none)
  else pure ()

/-- `do_OP_CHECKSEQUENCEVERIFY`; `errno.INVALID_STACK_OPERATION + 1` is the number the overflow raise carries -/
def do_CHECKSEQUENCEVERIFY (cfg : Config) (s : State) : M State :=
  let flags := cfg.flags
  if !hasFlag flags VERIFY_CHECKSEQUENCEVERIFY then
    if hasFlag flags VERIFY_DISCOURAGE_UPGRADABLE_NOPS then .error (scriptErr errno_DISCOURAGE_UPGRADABLE_NOPS) else pure s
  else match s.stack with
  | [] => .error invalidStack
  | top :: _ =>
    if top.length > 5 then .error (scriptErr (errno_INVALID_STACK_OPERATION + 1)) else do
    let operand ← peek 1 s
    let (sequence, s) ← popInt flags s 5
    let s := push operand s
    if sequence < 0 then .error (scriptErr errno_NEGATIVE_LOCKTIME)
    else if hasFlag sequence.toNat SEQUENCE_LOCKTIME_DISABLE_FLAG then pure s
    else if cfg.ctx.version < 2 then .error (scriptErr errno_UNSATISFIED_LOCKTIME)
    else if hasFlag cfg.ctx.sequence SEQUENCE_LOCKTIME_DISABLE_FLAG then .error (.script none)
    else do
      checkSequenceVerify sequence.toNat cfg.ctx.sequence
      pure s

end Pycoin.VM
