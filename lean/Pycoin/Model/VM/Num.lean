import Pycoin.Model.VM.Basic
/-!
`pycoin/satoshi/IntStreamer.py` and the integer/boolean helpers of `pycoin/coins/bitcoin/VM.py`.
-/
namespace Pycoin.VM
open Pycoin.Gen.VM

/-- `IntStreamer.int_from_script_bytes(s, require_minimal)`.
`ba = reversed(s)`; `i = ba[0]`; `v = i & 0x7f` (written `% 128`); the minimal test
`v == 0 and (len(ba) <= 1 or ba[1] & 0x80 == 0)` raises `UNKNOWN_ERROR`; big-endian accumulation of `ba[1:]`;
sign from `i & 0x80` (written `≥ 128`).  No length bound here. -/
def intFromScriptBytes (s : Bytes) (requireMinimal : Bool) : M Int :=
  match s.reverse with
  | [] => .ok 0
  | i :: rest =>
    if requireMinimal && i.toNat % 128 == 0 &&
        (match rest with | [] => true | b :: _ => b.toNat < 128) then
      .error (scriptErr errno_UNKNOWN_ERROR)
    else
      let mag : Nat := rest.foldl (fun v b => v * 256 + b.toNat) (i.toNat % 128)
      .ok (if i.toNat ≥ 128 then -(mag : Int) else (mag : Int))

/-- the `while v >= 256` loop: little-endian digits, at least one; `fuel` bounds the loop (any `fuel ≥ v` works) -/
def leDigits : Nat → Nat → Bytes
  | 0, v => [UInt8.ofNat v]
  | fuel + 1, v => if v ≥ 256 then UInt8.ofNat (v % 256) :: leDigits fuel (v / 256) else [UInt8.ofNat v]

/-- last step of `int_to_script_bytes`: `if ba[-1] >= 128: append(0x80 if neg else 0) elif neg: ba[-1] |= 0x80` -/
def signFix (neg : Bool) : Bytes → Bytes
  | [] => []
  | [b] => if b.toNat ≥ 128 then [b, if neg then 0x80 else 0] else [if neg then UInt8.ofNat (b.toNat + 128) else b]
  | b :: bs => b :: signFix neg bs

/-- `IntStreamer.int_to_script_bytes(v)` -/
def intToScriptBytes (v : Int) : Bytes :=
  if v = 0 then [] else signFix (v < 0) (leDigits v.natAbs v.natAbs)

/-- `BitcoinVM.MAX_INT_SIZE` -/
def maxIntSize : Nat := MAX_INT_SIZE

/-- `BitcoinVM.pop_int(max_size=None)`: `len(self[-1]) > max_size` raises `UNKNOWN_ERROR` (default bound
`MAX_INT_SIZE`); minimal encoding required under MINIMALDATA -/
def popInt (flags : Nat) (s : State) (maxSize : Nat := maxIntSize) : M (Int × State) := do
  let top ← peek 1 s
  if top.length > maxSize then .error (scriptErr errno_UNKNOWN_ERROR)
  let (x, s) ← pop s
  let v ← intFromScriptBytes x (hasFlag flags VERIFY_MINIMALDATA)
  pure (v, s)

/-- `BitcoinVM.pop_nonnegative` -/
def popNonnegative (flags : Nat) (s : State) : M (Nat × State) := do
  let (v, s) ← popInt flags s
  if v < 0 then .error invalidStack else pure (v.toNat, s)

/-- `BitcoinVM.push_int` -/
def pushInt (v : Int) (s : State) : State := push (intToScriptBytes v) s

/-- `BitcoinVM.bool_from_script_bytes(v, require_minimal)`.  With `require_minimal` the code compares the decoded
*integer* with the *byte strings* `VM_FALSE`/`VM_TRUE` (`int_v not in (b"", b"\x01")` is always true), so it raises
`UNKNOWN_ERROR` whenever the decoding itself did not. -/
def boolFromScriptBytes (v : Bytes) (requireMinimal : Bool := false) : M Bool := do
  let n ← intFromScriptBytes v requireMinimal
  if requireMinimal then .error (scriptErr errno_UNKNOWN_ERROR) else pure (n != 0)

/-- `BitcoinVM.bool_to_script_bytes` -/
def boolToScriptBytes (b : Bool) : Bytes := if b then VM_TRUE else VM_FALSE

/-- `intops.pop_check_bounds`: `len(vm[-1]) > 4` raises `UNKNOWN_ERROR` -/
def popCheckBounds (flags : Nat) (s : State) : M (Int × State) := do
  let top ← peek 1 s
  if top.length > 4 then .error (scriptErr errno_UNKNOWN_ERROR) else popInt flags s

end Pycoin.VM
