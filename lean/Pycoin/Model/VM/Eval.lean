import Pycoin.Model.VM.Ops
import Pycoin.Model.VM.CheckSig
/-!
`pycoin/vm/VM.py`: `eval_instruction`, `check_stack_size`, `post_script_check`, `eval_script`;
dispatch through the generated `INSTRUCTION_LOOKUP`.
-/
namespace Pycoin.VM
open Pycoin.Gen.VM

/-- `f(vm)` for the function identified by `h` -/
def runHandler (env : Env) (cfg : Config) (h : Handler) (s : State) : M State :=
  let flags := cfg.flags
  match h with
  | .badInstruction _ => .error (scriptErr errno_BAD_OPCODE)
  | .noOp | .lambda0 => pure s
  | .badOpcode err => .error (scriptErr err)
  | .discourageNops => discourageNops flags s
  | .mkIf rev => doIf rev flags s
  | .misc_ELSE => do_ELSE s
  | .misc_ENDIF => do_ENDIF s
  | .misc_RESERVED => do_RESERVED s
  | .misc_CODESEPARATOR => do_CODESEPARATOR s
  | .misc_TOALTSTACK => do_TOALTSTACK s
  | .misc_FROMALTSTACK => do_FROMALTSTACK s
  | .misc_CHECKLOCKTIMEVERIFY => do_CHECKLOCKTIMEVERIFY cfg s
  | .misc_CHECKSEQUENCEVERIFY => do_CHECKSEQUENCEVERIFY cfg s
  | .misc_IFDUP => do_IFDUP_misc s
  | .stack_NOP => pure s
  | .stack_VER | .stack_RESERVED1 | .stack_RESERVED2 => .error (scriptErr errno_BAD_OPCODE)
  | .stack_RETURN => .error (scriptErr errno_OP_RETURN)
  | .stack_2DROP => do_2DROP s
  | .stack_2DUP => do_2DUP s
  | .stack_3DUP => do_3DUP s
  | .stack_2OVER => do_2OVER s
  | .stack_2ROT => do_2ROT s
  | .stack_2SWAP => do_2SWAP s
  | .stack_IFDUP => do_IFDUP s
  | .stack_DROP => do_DROP s
  | .stack_DUP => do_DUP s
  | .stack_NIP => do_NIP s
  | .stack_OVER => do_OVER s
  | .stack_ROT => do_ROT s
  | .stack_SWAP => do_SWAP s
  | .stack_TUCK => do_TUCK s
  | .stack_RIPEMD160 => do_RIPEMD160 env s
  | .stack_SHA1 => do_SHA1 env s
  | .stack_SHA256 => do_SHA256 env s
  | .stack_HASH160 => do_HASH160 env s
  | .stack_HASH256 => do_HASH256 env s
  | .int_VERIFY => do_VERIFY s
  | .int_DEPTH => do_DEPTH s
  | .int_PICK => do_PICK flags s
  | .int_ROLL => do_ROLL flags s
  | .int_SIZE => do_SIZE s
  | .int_EQUAL => do_EQUAL s
  | .int_EQUALVERIFY => do_EQUALVERIFY s
  | .int_ADD => do_ADD flags s
  | .int_SUB => do_SUB flags s
  | .int_BOOLAND => do_BOOLAND flags s
  | .int_BOOLOR => do_BOOLOR flags s
  | .int_NUMEQUAL => do_NUMEQUAL flags s
  | .int_NUMNOTEQUAL => do_NUMNOTEQUAL flags s
  | .int_LESSTHAN => do_LESSTHAN flags s
  | .int_GREATERTHAN => do_GREATERTHAN flags s
  | .int_LESSTHANOREQUAL => do_LESSTHANOREQUAL flags s
  | .int_GREATERTHANOREQUAL => do_GREATERTHANOREQUAL flags s
  | .int_MIN => do_MIN flags s
  | .int_MAX => do_MAX flags s
  | .int_NUMEQUALVERIFY => do_NUMEQUALVERIFY flags s
  | .int_WITHIN => do_WITHIN flags s
  | .int_1ADD => do_1ADD flags s
  | .int_1SUB => do_1SUB flags s
  | .int_NEGATE => do_NEGATE flags s
  | .int_ABS => do_ABS flags s
  | .int_NOT => do_NOT flags s
  | .int_0NOTEQUAL => do_0NOTEQUAL flags s
  | .sig_CHECKSIG => do_CHECKSIG env cfg s
  | .sig_CHECKSIGVERIFY => do_CHECKSIGVERIFY env cfg s
  | .sig_CHECKMULTISIG => do_CHECKMULTISIG env cfg s
  | .sig_CHECKMULTISIGVERIFY => do_CHECKMULTISIGVERIFY env cfg s
  | .unknown _ => .error (.py "UnknownHandler")

/-- `check_stack_size` -/
def checkStackSize (s : State) : M Unit :=
  if s.stack.length + s.altstack.length > MAX_STACK_SIZE then .error (scriptErr errno_STACK_SIZE) else pure ()

/-- `eval_instruction` (no `traceback_f`) -/
def evalInstruction (env : Env) (cfg : Config) (s : State) : M State := do
  let allIfTrue := s.cond.allIfTrue
  -- `self.flags & VERIFY_MINIMALDATA and all_if_true`
  let verifyMinimalData := hasFlag cfg.flags VERIFY_MINIMALDATA && allIfTrue
  let f ← getOpcode cfg.script s.pc verifyMinimalData
  if !f.isOk then .error (scriptErr errno_BAD_OPCODE)
  -- `if data and len(data) > MAX_BLOB_LENGTH`
  match f.data with
  | some d => if d.length > MAX_BLOB_LENGTH then .error (scriptErr errno_PUSH_SIZE)
  | none => pure ()
  let s := if f.data.isNone then { s with opCount := s.opCount + 1 } else s
  let (h, outsideConditional) ← match lookupList[f.opcode]? with
    | some e => pure e
    | none => .error (.py "IndexError")
  let s := match f.data with
    | some d => if allIfTrue then push d s else s
    | none => s
  let s := { s with pc := f.pc }
  let s ← if allIfTrue || outsideConditional then runHandler env cfg h s else pure s
  if s.opCount > MAX_OP_COUNT then .error (scriptErr errno_OP_COUNT)
  -- the size limit is checked after every instruction
  checkStackSize s
  pure s

/-- `post_script_check` -/
def postScriptCheck (s : State) : M Unit := s.cond.checkFinalState

/-- `while self.pc < len(self.script): self.eval_instruction()`; structural in `fuel`
(`OutOfFuel` is never returned by `evalScript`: see `C03M_eval_terminates`) -/
def evalLoop (env : Env) (cfg : Config) : Nat → State → M State
  | 0, s => if s.pc < cfg.script.length then .error (.py "OutOfFuel") else pure s
  | fuel + 1, s =>
    if s.pc < cfg.script.length then do
      evalLoop env cfg fuel (← evalInstruction env cfg s)
    else pure s

/-- `VM(script, tx_context, sighash_f, flags, initial_stack).eval_script()`: the final state
(`stack` is what Python returns, head = top) -/
def evalScript (env : Env) (cfg : Config) (initialStack : List Bytes) : M State := do
  if cfg.script.length > MAX_SCRIPT_LENGTH then .error (scriptErr errno_SCRIPT_SIZE)
  let s ← evalLoop env cfg cfg.script.length { stack := initialStack }
  postScriptCheck s
  pure s

end Pycoin.VM
