import Pycoin.Py.Bytes
import Pycoin.Py.IntBits
import Pycoin.Model.PyErr
import Pycoin.Gen.HashTables
/-!
C19 — model of `pycoin/contrib/ripemd160.py` (the bundled pure-Python RIPEMD-160), function by
function as it is written: Python unbounded integers (`Int`), masks only where the code masks
(`rol` and the final `h & 0xFFFFFFFF`), its own padding arithmetic (`(119 - len(data)) & 63`,
`len(data) & ~63`), list indexing and `struct` calls that can raise.  The tables `ML MR RL RR KL KR`
and the initial state come from `Gen/HashTables.lean`, regenerated from the source on every run.
-/
namespace Pycoin.Ripemd160Py
open Pycoin.Gen.HashTables

abbrev M := Except PyErr

/-- `fi(x, y, z, i)` -/
def fi (x y z : Int) (i : Int) : M Int :=
  if i = 0 then pure (pyXor (pyXor x y) z)
  else if i = 1 then pure (pyOr (pyAnd x y) (pyAnd (~~~x) z))
  else if i = 2 then pure (pyXor (pyOr x (~~~y)) z)
  else if i = 3 then pure (pyOr (pyAnd x z) (pyAnd y (~~~z)))
  else if i = 4 then pure (pyXor x (pyOr y (~~~z)))
  else throw .assertionError

/-- `rol(x, i)`: `((x << i) | ((x & 0xFFFFFFFF) >> (32 - i))) & 0xFFFFFFFF` -/
def rol (x : Int) (i : Int) : M Int := do
  let hi ← pyShlE x i
  let lo ← pyShrE (pyAnd x 0xFFFFFFFF) (32 - i)
  pure (pyAnd (pyOr hi lo) 0xFFFFFFFF)

/-- `struct.unpack("<L", b)[0]`: exactly four bytes, else `struct.error` -/
def unpackL (b : Bytes) : M Int :=
  if b.length = 4 then pure (leNat b : Nat) else throw .structError

/-- `struct.pack("<L", v)` -/
def packL (v : Int) : M Bytes :=
  if 0 ≤ v ∧ v < 2 ^ 32 then pure (leBytes v.toNat 4) else throw .structError

/-- `struct.pack("<Q", v)` -/
def packQ (v : Int) : M Bytes :=
  if 0 ≤ v ∧ v < 2 ^ 64 then pure (leBytes v.toNat 8) else throw .structError

/-- the five chaining variables `(h0, h1, h2, h3, h4)` / the five line variables `(a, b, c, d, e)` -/
structure St where
  a : Int
  b : Int
  c : Int
  d : Int
  e : Int
  deriving DecidableEq, Repr

/-- `x = [struct.unpack("<L", block[4*i : 4*(i+1)])[0] for i in range(16)]` -/
def blockWords (block : Bytes) : M (List Int) :=
  (List.range 16).mapM fun i => unpackL (slice block (4 * i) (4 * (i + 1)))

/-- one line of round `j` (left with `ML RL KL` and function index `rnd`, right with `MR RR KR` and `4 - rnd`):
```
al = rol(al + fi(bl, cl, dl, rnd) + x[ML[j]] + KL[rnd], RL[j]) + el
al, bl, cl, dl, el = el, al, bl, rol(cl, 10), dl
``` -/
def line (x : List Int) (Mt Rt Kt : List Int) (fidx : Int) (j : Nat) (s : St) : M St := do
  let rnd : Int := (j : Int) >>> 4
  let f ← fi s.b s.c s.d fidx
  let xi ← pyGetItem x (← pyGetItem Mt j)
  let k ← pyGetItem Kt rnd
  let a ← rol (s.a + f + xi + k) (← pyGetItem Rt j)
  let a := a + s.e
  let c' ← rol s.c 10
  pure ⟨s.e, a, s.b, c', s.d⟩

/-- body of `for j in range(80)` on the pair (left line, right line) -/
def round (x : List Int) (p : St × St) (j : Nat) : M (St × St) := do
  let rnd : Int := (j : Int) >>> 4
  let l ← line x ML RL KL rnd j p.1
  let r ← line x MR RR KR (4 - rnd) j p.2
  pure (l, r)

/-- `compress(h0, h1, h2, h3, h4, block)` -/
def compress (h : St) (block : Bytes) : M St := do
  let x ← blockWords block
  let (l, r) ← (List.range 80).foldlM (round x) (h, h)
  pure ⟨h.b + l.c + r.d, h.c + l.d + r.e, h.d + l.e + r.a, h.e + l.a + r.b, h.a + l.b + r.c⟩

/-- `for b in range(len(buf) >> 6): state = compress(*state, buf[64*b : 64*(b+1)])` -/
def blocks (buf : Bytes) (st : St) : M St :=
  (List.range (buf.length >>> 6)).foldlM (fun st b => compress st (slice buf (64 * b) (64 * (b + 1)))) st

/-- `state = (0x67452301, …)`; `compress(*state, …)` needs exactly five values -/
def init : M St :=
  match initState with
  | [a, b, c, d, e] => pure ⟨a, b, c, d, e⟩
  | _ => throw .typeError

/-- `ripemd160(data)` -/
def ripemd160 (data : Bytes) : M Bytes := do
  let state ← init
  let state ← blocks data state
  let n : Int := data.length
  -- `b"\x00" * k` is empty for k ≤ 0, `data[k:]` with k ≥ 0: both are `toNat` of a value that is never negative here
  let pad : Bytes := [0x80] ++ List.replicate (pyAnd (119 - n) 63).toNat 0
  let fin := data.drop (pyAnd n (~~~(63 : Int))).toNat ++ pad ++ (← packQ (8 * n))
  let state ← blocks fin state
  let w ← [state.a, state.b, state.c, state.d, state.e].mapM fun h => packL (pyAnd h 0xFFFFFFFF)
  pure w.flatten

end Pycoin.Ripemd160Py
