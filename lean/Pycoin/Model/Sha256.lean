import Pycoin.Py.Bytes
/-!
SHA-256 (FIPS 180-4) as an executable Lean function over byte lists.  Python's
`hashlib.sha256` is *modelled* by this function (validated against hashlib by the
C19 correspondence check on every run); in theorems it mostly appears as a symbol.
-/
namespace Pycoin.Hash

def k256 : Array UInt32 := #[
  0x428a2f98, 0x71374491, 0xb5c0fbcf, 0xe9b5dba5, 0x3956c25b, 0x59f111f1, 0x923f82a4, 0xab1c5ed5,
  0xd807aa98, 0x12835b01, 0x243185be, 0x550c7dc3, 0x72be5d74, 0x80deb1fe, 0x9bdc06a7, 0xc19bf174,
  0xe49b69c1, 0xefbe4786, 0x0fc19dc6, 0x240ca1cc, 0x2de92c6f, 0x4a7484aa, 0x5cb0a9dc, 0x76f988da,
  0x983e5152, 0xa831c66d, 0xb00327c8, 0xbf597fc7, 0xc6e00bf3, 0xd5a79147, 0x06ca6351, 0x14292967,
  0x27b70a85, 0x2e1b2138, 0x4d2c6dfc, 0x53380d13, 0x650a7354, 0x766a0abb, 0x81c2c92e, 0x92722c85,
  0xa2bfe8a1, 0xa81a664b, 0xc24b8b70, 0xc76c51a3, 0xd192e819, 0xd6990624, 0xf40e3585, 0x106aa070,
  0x19a4c116, 0x1e376c08, 0x2748774c, 0x34b0bcb5, 0x391c0cb3, 0x4ed8aa4a, 0x5b9cca4f, 0x682e6ff3,
  0x748f82ee, 0x78a5636f, 0x84c87814, 0x8cc70208, 0x90befffa, 0xa4506ceb, 0xbef9a3f7, 0xc67178f2]

def rotr32 (x : UInt32) (n : UInt32) : UInt32 := (x >>> n) ||| (x <<< (32 - n))

def be32 (a b c d : UInt8) : UInt32 :=
  (a.toUInt32 <<< 24) ||| (b.toUInt32 <<< 16) ||| (c.toUInt32 <<< 8) ||| d.toUInt32

def u32be (x : UInt32) : Bytes :=
  [(x >>> 24).toUInt8, (x >>> 16).toUInt8, (x >>> 8).toUInt8, x.toUInt8]

def words32 : Bytes → List UInt32
  | a :: b :: c :: d :: rest => be32 a b c d :: words32 rest
  | _ => []

/-- message padding: 0x80, zeros to 56 mod 64, 64-bit big-endian bit length -/
def pad64 (msg : Bytes) : Bytes :=
  let l := msg.length
  let z := (119 - l % 64) % 64   -- number of zero bytes
  msg ++ [0x80] ++ List.replicate z 0 ++ beBytes (8 * l) 8

def schedule256 (blk : List UInt32) : Array UInt32 := Id.run do
  let mut w : Array UInt32 := blk.toArray
  for i in [16:64] do
    let w15 := w[i - 15]!
    let w2 := w[i - 2]!
    let s0 := rotr32 w15 7 ^^^ rotr32 w15 18 ^^^ (w15 >>> 3)
    let s1 := rotr32 w2 17 ^^^ rotr32 w2 19 ^^^ (w2 >>> 10)
    w := w.push (w[i - 16]! + s0 + w[i - 7]! + s1)
  return w

structure St256 where
  a : UInt32
  b : UInt32
  c : UInt32
  d : UInt32
  e : UInt32
  f : UInt32
  g : UInt32
  h : UInt32

def compress256 (st : St256) (blk : List UInt32) : St256 := Id.run do
  let w := schedule256 blk
  let mut s := st
  for i in [0:64] do
    let S1 := rotr32 s.e 6 ^^^ rotr32 s.e 11 ^^^ rotr32 s.e 25
    let ch := (s.e &&& s.f) ^^^ ((~~~ s.e) &&& s.g)
    let t1 := s.h + S1 + ch + k256[i]! + w[i]!
    let S0 := rotr32 s.a 2 ^^^ rotr32 s.a 13 ^^^ rotr32 s.a 22
    let mj := (s.a &&& s.b) ^^^ (s.a &&& s.c) ^^^ (s.b &&& s.c)
    let t2 := S0 + mj
    s := ⟨t1 + t2, s.a, s.b, s.c, s.d + t1, s.e, s.f, s.g⟩
  return ⟨st.a + s.a, st.b + s.b, st.c + s.c, st.d + s.d, st.e + s.e, st.f + s.f, st.g + s.g, st.h + s.h⟩

def chunks (n : Nat) (l : List α) : List (List α) :=
  if h : n = 0 ∨ l = [] then [] else l.take n :: chunks n (l.drop n)
termination_by l.length
decreasing_by
  have : l ≠ [] := fun e => h (Or.inr e)
  have : 0 < l.length := List.length_pos_iff.mpr this
  simp only [List.length_drop]; omega

def init256 : St256 :=
  ⟨0x6a09e667, 0xbb67ae85, 0x3c6ef372, 0xa54ff53a, 0x510e527f, 0x9b05688c, 0x1f83d9ab, 0x5be0cd19⟩

def sha256 (msg : Bytes) : Bytes :=
  let s := (chunks 16 (words32 (pad64 msg))).foldl compress256 init256
  u32be s.a ++ u32be s.b ++ u32be s.c ++ u32be s.d ++ u32be s.e ++ u32be s.f ++ u32be s.g ++ u32be s.h

/-- `double_sha256` -/
def dsha256 (msg : Bytes) : Bytes := sha256 (sha256 msg)

end Pycoin.Hash
