import Pycoin.Py.Bytes
/-!
Wire primitives shared by transactions, blocks and p2p messages (core Lean only).

Mirrors
* `pycoin/satoshi/satoshi_int.py`     `parse_satoshi_int`, `stream_satoshi_int`   (compact-size integers)
* `pycoin/satoshi/satoshi_string.py`  `parse_satoshi_string`, `stream_satoshi_string`
* `pycoin/satoshi/satoshi_streamer.py` the *kinds* of entries of `STREAMER_FUNCTIONS` (which letter has which kind is
  generated into `Gen/Formats.lean` by probing the registered functions)
* `pycoin/serialize/streamer.py`      `Streamer.parse_struct`, `Streamer.stream_struct`

Python semantics made explicit:
* a stream `f` is the list of bytes still unread; `f.read(n)` returns what is there (silently short), and raises
  `OverflowError` when `n ≥ 2^63` (BytesIO cannot index that far);
* `ord(f.read(1))` on an exhausted stream raises `TypeError`;
* `struct.unpack(fmt, short)` and `struct.pack(fmt, out_of_range)` raise `struct.error` (class name `error`);
* integers are `Int` on the way out (any Python int can be handed to a streamer), naturals on the way in.
-/
namespace Pycoin.Wire

/-- the exceptions that can leave the codecs; `tag` is the Python class name -/
inductive Err
  | typeError | structError | valueError | overflowError | keyError | attributeError
  deriving DecidableEq, Repr

def Err.tag : Err → String
  | .typeError => "TypeError"
  | .structError => "error"
  | .valueError => "ValueError"
  | .overflowError => "OverflowError"
  | .keyError => "KeyError"
  | .attributeError => "AttributeError"

/-- a parser consumes a prefix of the unread bytes -/
abbrev Parser (α : Type) := Bytes → Except Err (α × Bytes)

/-! ## reading -/

/-- `ord(f.read(1))` -/
def readByte : Parser Nat
  | [] => .error .typeError
  | x :: r => .ok (x.toNat, r)

/-- `f.read(n)` for `n < 2^63`: silently short at the end of the stream -/
def readN (n : Nat) : Parser Bytes := fun b => .ok (b.take n, b.drop n)

/-- `struct.unpack("<B|<H|<L|<Q", f.read(k))[0]` -/
def unpackLE (k : Nat) : Parser Nat := fun b =>
  if b.length < k then .error .structError else .ok (leNat (b.take k), b.drop k)

/-- `struct.unpack("!H", f.read(k))[0]` -/
def unpackBE (k : Nat) : Parser Nat := fun b =>
  if b.length < k then .error .structError else .ok (beNat (b.take k), b.drop k)

/-- `struct.pack("<…", v)`: refuses negative and too large values -/
def packLE (k : Nat) (v : Int) : Except Err Bytes :=
  if 0 ≤ v ∧ v < ((256 ^ k : Nat) : Int) then .ok (leBytes v.toNat k) else .error .structError

def packBE (k : Nat) (v : Int) : Except Err Bytes :=
  if 0 ≤ v ∧ v < ((256 ^ k : Nat) : Int) then .ok (beBytes v.toNat k) else .error .structError

/-! ## compact-size integers (`satoshi_int.py`) -/

/-- body of `parse_satoshi_int` once the first byte `v` is known.  Non-canonical encodings
(`fd 01 00`, …) are accepted: nothing compares the value with the width used. -/
def parseSatoshiIntV (v : Nat) : Parser Nat := fun b =>
  if v = 253 then unpackLE 2 b
  else if v = 254 then unpackLE 4 b
  else if v = 255 then unpackLE 8 b
  else .ok (v, b)

/-- `parse_satoshi_int(f, v=None)`: with `v` given, no byte is read for the tag -/
def parseSatoshiInt (v : Option Nat := none) : Parser Nat := fun b =>
  match v with
  | some v => parseSatoshiIntV v b
  | none =>
    match readByte b with
    | .error e => .error e
    | .ok (v, r) => parseSatoshiIntV v r

/-- `stream_satoshi_int(f, v)`; boundaries 252/253, 65535/65536, 2^32-1/2^32; `struct.error` below 0 and from 2^64 -/
def streamSatoshiInt (v : Int) : Except Err Bytes :=
  if v < 253 then packLE 1 v
  else if v ≤ 65535 then (packLE 2 v).map (0xfd :: ·)
  else if v ≤ 0xFFFFFFFF then (packLE 4 v).map (0xfe :: ·)
  else (packLE 8 v).map (0xff :: ·)

/-! ## length-prefixed strings (`satoshi_string.py`) -/

/-- `parse_satoshi_string`: `f.read(size)` is silently short on a truncated stream -/
def parseSatoshiString : Parser Bytes := fun b =>
  match parseSatoshiInt none b with
  | .error e => .error e
  | .ok (n, r) => if n ≥ 2 ^ 63 then .error .overflowError else .ok (r.take n, r.drop n)

def streamSatoshiString (v : Bytes) : Except Err Bytes :=
  match streamSatoshiInt v.length with
  | .error e => .error e
  | .ok h => .ok (h ++ v)

/-! ## format letters (`STREAMER_FUNCTIONS`) -/

/-- what an entry of a streamer table does; which letter has which kind is generated from the source -/
inductive Kind
  | uintLE (k : Nat)      -- `struct` `<B <H <L <Q`
  | uintBE (k : Nat)      -- `struct` `!H`
  | compactInt            -- `satoshi_int`
  | compactString         -- `satoshi_string`
  | fixedBytes (n : Nat)  -- `f.read(n)` / `f.write(v[:n])`
  | bool                  -- `struct` `?`
  | other                 -- an entry the translator could not classify: the model refuses it
  deriving DecidableEq, Repr

/-- the Python values that travel through `parse_struct` / `stream_struct` -/
inductive Val
  | int (v : Int)
  | bytes (b : Bytes)
  | bool (b : Bool)
  | tup (l : List Val)    -- arrays `[..]` (parse side only)

/-- `stream_lookup[c](f, v)`.  A value of the wrong Python type is outside the model (Python raises `TypeError`
or `struct.error` depending on the letter); typed callers never produce one. -/
def streamLetter : Kind → Val → Except Err Bytes
  | .uintLE k, .int v => packLE k v
  | .uintBE k, .int v => packBE k v
  | .compactInt, .int v => streamSatoshiInt v
  | .compactString, .bytes b => streamSatoshiString b
  | .fixedBytes n, .bytes b => .ok (b.take n)
  | .bool, .bool b => .ok [if b then 1 else 0]
  | .bool, .int v => .ok [if v = 0 then 0 else 1]
  | _, _ => .error .typeError

/-- `parse_lookup[c](f)` -/
def parseLetter : Kind → Parser Val
  | .uintLE k => fun b =>
    match unpackLE k b with
    | .error e => .error e
    | .ok (n, r) => .ok (.int n, r)
  | .uintBE k => fun b =>
    match unpackBE k b with
    | .error e => .error e
    | .ok (n, r) => .ok (.int n, r)
  | .compactInt => fun b =>
    match parseSatoshiInt none b with
    | .error e => .error e
    | .ok (n, r) => .ok (.int n, r)
  | .compactString => fun b =>
    match parseSatoshiString b with
    | .error e => .error e
    | .ok (s, r) => .ok (.bytes s, r)
  | .fixedBytes n => fun b => .ok (.bytes (b.take n), b.drop n)
  | .bool => fun b =>
    match b with
    | [] => .error .structError
    | x :: r => .ok (.bool (x != 0), r)
  | .other => fun _ => .error .keyError

/-! ## `Streamer.stream_struct` / `parse_struct` -/

/-- `for c, v in zip(fmt, args): stream_lookup[c](f, v)` — `zip` stops at the shorter of the two -/
def streamStruct (tbl : Char → Option Kind) : List Char → List Val → Except Err Bytes
  | c :: cs, v :: vs =>
    match tbl c with
    | none => .error .keyError
    | some k =>
      match streamLetter k v with
      | .error e => .error e
      | .ok a =>
        match streamStruct tbl cs vs with
        | .error e => .error e
        | .ok r => .ok (a ++ r)
  | _, _ => .ok []

/-- run `p` `n` times (`for i in range(count): xs.append(parse(f))`) -/
def parseN {α : Type} (p : Parser α) : Nat → Parser (List α)
  | 0 => fun b => .ok ([], b)
  | n + 1 => fun b =>
    match p b with
    | .error e => .error e
    | .ok (a, r) =>
      match parseN p n r with
      | .error e => .error e
      | .ok (as, r') => .ok (a :: as, r')

/-- `parse_struct(subfmt, f)` for the text between `[` and the first `]`: it holds no `]`, so a `[` in it has
no closing bracket (`ValueError`) -/
def parseFlat (tbl : Char → Option Kind) : List Char → Parser (List Val)
  | [] => fun b => .ok ([], b)
  | c :: cs => fun b =>
    if c = '[' then .error .valueError
    else match tbl c with
      | none => .error .keyError
      | some k =>
        match parseLetter k b with
        | .error e => .error e
        | .ok (v, r) =>
          match parseFlat tbl cs r with
          | .error e => .error e
          | .ok (vs, r') => .ok (v :: vs, r')

/-- `parse_struct`: the second argument is `some acc` while the characters after a `[` are being collected
(`fmt.find("]", i)` finds the *first* `]`) -/
def parseStructGo (tbl : Char → Option Kind) (count : Parser Nat) : List Char → Option (List Char) → Parser (List Val)
  | [], none => fun b => .ok ([], b)
  | [], some _ => fun _ => .error .valueError
  | c :: cs, none => fun b =>
    if c = '[' then
      if cs.contains ']' then parseStructGo tbl count cs (some []) b else .error .valueError
    else match tbl c with
      | none => .error .keyError
      | some k =>
        match parseLetter k b with
        | .error e => .error e
        | .ok (v, r) =>
          match parseStructGo tbl count cs none r with
          | .error e => .error e
          | .ok (vs, r') => .ok (v :: vs, r')
  | c :: cs, some acc => fun b =>
    if c = ']' then
      let sub := acc.reverse
      match count b with
      | .error e => .error e
      | .ok (n, r) =>
        match parseN (parseFlat tbl sub) n r with
        | .error e => .error e
        | .ok (items, r') =>
          let arr := Val.tup (if sub.length = 1 then items.flatten else items.map Val.tup)
          match parseStructGo tbl count cs none r' with
          | .error e => .error e
          | .ok (vs, r'') => .ok (arr :: vs, r'')
    else parseStructGo tbl count cs (some (c :: acc)) b

/-- `Streamer.parse_struct(fmt, f)` with `array_count_parse_f = parse_satoshi_int` -/
def parseStruct (tbl : Char → Option Kind) (fmt : List Char) : Parser (List Val) :=
  parseStructGo tbl (parseSatoshiInt none) fmt none

/-! ## sequences of items (`for t in xs: t.stream(f)`) -/

def streamList {α : Type} (s : α → Except Err Bytes) : List α → Except Err Bytes
  | [] => .ok []
  | a :: as =>
    match s a with
    | .error e => .error e
    | .ok x =>
      match streamList s as with
      | .error e => .error e
      | .ok r => .ok (x ++ r)

/-- compact-size count followed by the items -/
def streamCounted {α : Type} (s : α → Except Err Bytes) (l : List α) : Except Err Bytes :=
  match streamSatoshiInt l.length with
  | .error e => .error e
  | .ok h =>
    match streamList s l with
    | .error e => .error e
    | .ok r => .ok (h ++ r)

def parseCounted {α : Type} (p : Parser α) : Parser (List α) := fun b =>
  match parseSatoshiInt none b with
  | .error e => .error e
  | .ok (n, r) => parseN p n r

end Pycoin.Wire
