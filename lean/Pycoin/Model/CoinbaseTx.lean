import Pycoin.Model.TxCheck
import Pycoin.Gen.Opcodes
/-!
C20 — `Tx.coinbase_tx(public_key_sec, coin_value, coinbase_bytes, version, lock_time)` and `TxIn.coinbase_tx_in`
(`pycoin/coins/bitcoin/Tx.py`, `TxIn.py`): the one-input one-output transaction that pays a SEC-encoded key.
-/
namespace Pycoin.TxCheck
open Pycoin Pycoin.Wire

/-- `TxIn.coinbase_tx_in(script)`: the null outpoint, the given script, the final sequence number -/
def coinbaseTxIn (script : Bytes) : TxIn := ⟨Pycoin.zero32, 4294967295, script, 4294967295, []⟩

/-- the opcode byte `compile` writes for the word `OP_CHECKSIG` (looked up in the generated opcode table) -/
def opChecksig : Bytes :=
  match Gen.Opcodes.opcodeList.lookup "OP_CHECKSIG" with
  | some b => [b]
  | none => []

/-- `BitcoinScriptTools.compile("%s OP_CHECKSIG" % b2h(sec))` for a SEC-encoded public key: 33 or 65 bytes whose first
byte is below 0x10, so the hex word starts with `0`, is not read as a decimal number, and (1 ≤ length ≤ 75) is pushed
with a single length byte.  Other byte strings are outside this model (short ones are read as numbers or opcode names). -/
def payToSecScript (sec : Bytes) : Bytes := UInt8.ofNat sec.length :: sec ++ opChecksig

/-- `Tx.coinbase_tx(...)` -/
def coinbaseTx (sec : Bytes) (value : Int) (coinbaseBytes : Bytes) (version lockTime : Int) : Tx :=
  ⟨version, [coinbaseTxIn coinbaseBytes], [⟨value, payToSecScript sec⟩], lockTime⟩

end Pycoin.TxCheck
