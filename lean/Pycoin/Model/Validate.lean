import Pycoin.Model.Sighash
/-!
C06 — model of the validation entry points and their guards:

* `pycoin/coins/Tx.py`            `Tx.check_solution`, `Tx.is_solution_ok`, `Tx.bad_solution_count`
* `pycoin/coins/bitcoin/Tx.py`    `Tx.missing_unspent`, `Tx.missing_unspents`, `Tx.bad_solution_count` (coinbase → 0)
* `pycoin/coins/bitcoin/SolutionChecker.py`  `tx_context_for_idx`, the closures handed to the VM
* `pycoin/satoshi/checksigops.py` `checksigs`: the `sighash_cache` dict, local to one CHECKSIG/CHECKMULTISIG execution

The script interpreter itself is a parameter `V` (it is modelled and specified under C03): a function of the
`TxContext` and of the signature-hash closure, which it may call with any `(kind, script code, signatures, hash type)`.
No state survives a call: `SolutionChecker(tx)` is built afresh by `check_solution`, the only cache is the local
`sighash_cache` of `checksigs`.
-/
namespace Pycoin.Validate
open Pycoin Pycoin.Sighash

/-- the Python object: the transaction and its `unspents` list -/
structure State where
  tx : Tx
  us : List (Option TxOut)
  deriving DecidableEq, Repr

/-- `Tx.missing_unspent(idx)` -/
def missingUnspent (s : State) (idx : Nat) : Bool :=
  if s.tx.isCoinbase then true
  else if s.us.length ≤ idx then true
  else (s.us[idx]?.join).isNone

/-- `Tx.missing_unspents()` -/
def missingUnspents (s : State) : Bool := s.tx.missingUnspents s.us

/-- what `tx_context_for_idx` hands to the VM -/
structure TxContext where
  lockTime : Int
  version : Int
  puzzleScript : Bytes
  solutionScript : Bytes
  witnessSolutionStack : List Bytes
  sequence : Int
  txInIdx : Nat
  deriving DecidableEq, Repr

/-- `tx_context_for_idx(idx)`: `self.tx.txs_in[idx]` raises `IndexError` past the end; the puzzle script is empty
when `missing_unspent(idx)` -/
def txContextForIdx (s : State) (idx : Nat) : Option TxContext :=
  match s.tx.ins[idx]? with
  | none => none
  | some tin =>
    some { lockTime := s.tx.lockTime, version := s.tx.version,
           puzzleScript := if missingUnspent s idx then [] else
             (match s.us[idx]?.join with | some o => o.script | none => []),
           solutionScript := tin.script, witnessSolutionStack := tin.witness, sequence := tin.sequence, txInIdx := idx }

/-- a call of a signature-hash closure by the VM -/
structure Query where
  witness : Bool            -- `_make_witness_sighash_f` (true) or `_make_sighash_f` (false)
  script : Bytes            -- `vm.script[vm.begin_code_hash:]`
  sigs : List Bytes         -- the signature blobs of the CHECKSIG / CHECKMULTISIG being executed
  ht : Nat
  deriving DecidableEq, Repr

/-- the closures `check_solution` gives the VM for input `idx` of the current state -/
def oracle (c : Coin) (s : State) (idx : Nat) (q : Query) : Except Sighash.Err Nat :=
  if q.witness then witnessSighashF c s.tx s.us q.script q.sigs idx q.ht
  else sighashF c s.tx s.us q.script q.sigs idx q.ht

/-- how an interpreter run ends -/
inductive Outcome
  | ok
  | scriptError
  | raised (tag : String)       -- any other exception: it propagates out of `is_solution_ok`
  deriving DecidableEq, Repr

/-- the interpreter: any function of the context and of the closure -/
abbrev VM := TxContext → (Query → Except Sighash.Err Nat) → Outcome

/-- `Tx.check_solution(idx)`: a fresh `SolutionChecker(self)`, the context of the *current* fields, the VM -/
def checkSolution (V : VM) (c : Coin) (s : State) (idx : Nat) : Outcome :=
  match txContextForIdx s idx with
  | none => .raised "IndexError"
  | some ctx => V ctx (oracle c s idx)

/-- `Tx.is_solution_ok(idx)`; `.error tag` = the exception that escapes -/
def isSolutionOk (V : VM) (c : Coin) (s : State) (idx : Nat) : Except String Bool :=
  if s.us.length ≤ idx then .ok false
  else if (s.us[idx]?.join).isNone then .ok false
  else
    match checkSolution V c s idx with
    | .ok => .ok true
    | .scriptError => .ok false
    | .raised t => .error t

/-- `bitcoin.Tx.bad_solution_count()` -/
def badSolutionCount (V : VM) (c : Coin) (s : State) : Except String Nat :=
  if s.tx.isCoinbase then .ok 0
  else
    (List.range s.tx.ins.length).foldlM (fun n idx =>
      match isSolutionOk V c s idx with
      | .error t => .error t
      | .ok b => .ok (if b then n else n + 1)) 0

/-! ## how `unspents` gets populated -/

inductive PopErr | keyError | indexError | valueError
  deriving DecidableEq, Repr

def PopErr.tag : PopErr → String
  | .keyError => "KeyError" | .indexError => "IndexError" | .valueError => "ValueError"

/-- `l[i]` for a Python int `i`: negative indices count from the end; `none` = `IndexError` -/
def pyIndex {α : Type} (l : List α) (i : Int) : Option α :=
  if 0 ≤ i then l[i.toNat]?
  else if -(l.length : Int) ≤ i then l[((l.length : Int) + i).toNat]?
  else none

/-- a transaction database: what `tx_db.get(previous_hash)` returns — `none`, or a transaction given by the hash
its own `hash()` reports and its outputs -/
abbrev TxDb := Bytes → Option (Bytes × List TxOut)

/-- the output input `t` spends according to the database: the stored transaction must report the hash it is
filed under, and must have an output at `previous_index` -/
def dbOutput (db : TxDb) (t : TxIn) : Option TxOut :=
  match db t.prevHash with
  | some (h, outs) => if h = t.prevHash then pyIndex outs t.prevIndex else none
  | none => none

/-- `Tx.unspents_from_db(tx_db, ignore_missing)`: the list assigned to `self.unspents`, or the exception raised (in which
case `self.unspents` keeps its old value).  `tx.txs_out[previous_index]` raises `IndexError` when the source transaction
has no such output. -/
def unspentsFromDb (db : TxDb) (ignoreMissing : Bool) : List TxIn → Except PopErr (List (Option TxOut))
  | [] => .ok []
  | t :: ts =>
    let head : Except PopErr (Option TxOut) :=
      if t.isCoinbase then .ok none
      else
        match db t.prevHash with
        | some (h, outs) =>
          if h = t.prevHash then
            match pyIndex outs t.prevIndex with
            | some o => .ok (some o)
            | none => .error .indexError
          else if ignoreMissing then .ok none else .error .keyError
        | none => if ignoreMissing then .ok none else .error .keyError
    match head with
    | .error e => .error e
    | .ok u =>
      match unspentsFromDb db ignoreMissing ts with
      | .error e => .error e
      | .ok us => .ok (u :: us)

/-- `Tx.set_unspents(unspents)` -/
def setUnspents (s : State) (us : List (Option TxOut)) : Except PopErr State :=
  if us.length ≠ s.tx.ins.length then .error .valueError else .ok { s with us := us }

/-- is `is_solution_ok(idx)` refused by its guard (spent output unknown)? -/
def guardRefuses (s : State) (idx : Nat) : Bool := decide (s.us.length ≤ idx) || (s.us[idx]?.join).isNone

/-! ## the `sighash_cache` of `checksigs` -/

/-- `if signature_type not in sighash_cache: sighash_cache[signature_type] = f(signature_type)` then the lookup;
the cache is an association list created empty by every `checksigs` call -/
def cachedLookup {α : Type} (f : Nat → α) (cache : List (Nat × α)) (ht : Nat) : α × List (Nat × α) :=
  match cache.find? (fun p => p.1 == ht) with
  | some p => (p.2, cache)
  | none => (f ht, (ht, f ht) :: cache)

/-- the values handed to `generator.verify` by the successive `checksig` calls of one `checksigs` execution -/
def runCached {α : Type} (f : Nat → α) : List (Nat × α) → List Nat → List α
  | _, [] => []
  | cache, ht :: hts =>
    let r := cachedLookup f cache ht
    r.1 :: runCached f r.2 hts

/-! ## what the hash type of an input's signatures dictates (used by the differential oracle of the harness) -/

/-- the bytes a signature with hash type `ht` on input `idx` commits to, by the closure kind of the input -/
def preimageOf (c : Coin) (s : State) (witness : Bool) (code : Bytes) (idx ht : Nat) : Except Sighash.Err (Option Bytes) :=
  if witness || requiresForkId c then
    if (if witness then segwitRequiresForkId c else true) && decide (ht &&& Gen.Sighash.sighashForkid ≠ Gen.Sighash.sighashForkid) then
      .error .scriptError
    else
      match segwitPreimage c s.tx s.us code idx (ht ||| (forkId c <<< 8)) with
      | .error e => .error e
      | .ok p => .ok (some p)
  else legacyPreimage c s.tx code idx ht

end Pycoin.Validate
