import Pycoin.Model.Block
/-!
C14 — `Block.parse(f, include_offsets=True)`: `_parse_transactions` records `f.tell()` before each transaction
(`tx.offset_in_block`).  `total` is the length of the whole input, so `f.tell()` = `total` − bytes still unread.
-/
namespace Pycoin
open Pycoin.Wire Pycoin.Msg

namespace Block
open Pycoin.Gen.Messages (block_parse_parse_count)

/-- `_parse_transactions(f, count, include_offsets=True)` -/
def parseNOff {α : Type} (p : Parser α) (total : Nat) : Nat → Parser (List (Nat × α))
  | 0 => fun b => .ok ([], b)
  | n + 1 => fun b =>
    match p b with
    | .error e => .error e
    | .ok (a, r) =>
      match parseNOff p total n r with
      | .error e => .error e
      | .ok (as, r') => .ok ((total - b.length, a) :: as, r')

/-- `Block.parse(f, include_transactions=True, include_offsets=True, check_merkle_hash)` on a stream positioned at 0:
the block and the offsets of its transactions -/
def parseWithOffsets (c : Coin) (check : Bool := true) : Bytes → Except Msg.Err (Block × List Nat × Bytes) := fun b =>
  match parseAsHeader b with
  | .error e => .error (.wire e)
  | .ok (h, r) =>
    match parseStruct tbl block_parse_parse_count r with
    | .error e => .error (.wire e)
    | .ok ([.int n], r) =>
      match parseNOff (Tx.parse c) b.length n.toNat r with
      | .error e => .error (.wire e)
      | .ok (otxs, r) =>
        match setTxs c h (otxs.map (·.2)) check with
        | .error e => .error e
        | .ok blk => .ok (blk, otxs.map (·.1), r)
    | .ok _ => .error .typeError

/-- where the wire format puts each item of a list that starts at `start` -/
def offsetsFrom {α : Type} (s : α → Except Wire.Err Bytes) (start : Nat) : List α → List (Nat × α)
  | [] => []
  | a :: as => (start, a) :: offsetsFrom s (start + (match s a with | .ok x => x.length | .error _ => 0)) as

end Block
end Pycoin
