import Pycoin.Py.Bytes
import Pycoin.Model.Curve
import Pycoin.Model.Hash
/-!
C10 — model of `pycoin/encoding/sec.py` (`public_pair_to_sec`, `sec_to_public_pair`, `is_sec_compressed`,
`public_pair_to_hash160_sec`) and `pycoin/encoding/bytes32.py`.

A public pair is a pair of Python integers (nothing in this file reduces them modulo `p`).
`sec_to_public_pair` is modelled for the calls that pass a generator (every caller in pycoin does).
-/
namespace Pycoin.Sec
open Pycoin.Curve (CurveParams)

/-- exception classes of the key-encoding models (`Sec`, `KeyCtor`, `Wif`) -/
inductive Err
  | encodingError            -- EncodingError
  | overflowError            -- OverflowError (`int.to_bytes`)
  | invalidSecretExponent    -- InvalidSecretExponentError (a ValueError)
  | invalidPublicPair        -- InvalidPublicPairError (a ValueError)
  | typeError                -- TypeError
  | curve (e : Curve.Err)    -- whatever the curve arithmetic raised
  deriving DecidableEq, Repr

def Err.tag : Err → String
  | .encodingError => "EncodingError"
  | .overflowError => "OverflowError"
  | .invalidSecretExponent => "InvalidSecretExponentError"
  | .invalidPublicPair => "InvalidPublicPairError"
  | .typeError => "TypeError"
  | .curve e => e.tag

/-- `isinstance(e, ValueError)` -/
def Err.isValueError : Err → Bool
  | .invalidSecretExponent => true
  | .invalidPublicPair => true
  | .curve e => e.isValueError
  | _ => false

/-- `to_bytes_32(v)`: `v.to_bytes(32, "big")`, an `OverflowError` outside `0 ≤ v < 2^256` -/
def toBytes32 (v : Int) : Except Err Bytes :=
  if v < 0 ∨ v ≥ 2 ^ 256 then .error .overflowError else .ok (beBytes v.toNat 32)

/-- `from_bytes_32(b)`: `int.from_bytes(b, "big")` whatever the length -/
def fromBytes32 (b : Bytes) : Int := (beNat b : Nat)

/-- `public_pair_to_sec(public_pair, compressed)`; `y & 1` on a Python integer is `y mod 2` (floor) -/
def publicPairToSec (x y : Int) (compressed : Bool) : Except Err Bytes :=
  match toBytes32 x with
  | .error e => .error e
  | .ok xStr =>
    if compressed then .ok (UInt8.ofNat (2 + (fmod y 2).toNat) :: xStr)
    else
      match toBytes32 y with
      | .error e => .error e
      | .ok yStr => .ok (4 :: (xStr ++ yStr))

/-- `n.bit_length()` -/
def bitLength (n : Nat) : Nat := if n = 0 then 0 else Nat.log2 n + 1

/-- `(generator.p().bit_length() + 7) >> 3` -/
def byteCount (c : CurveParams) : Nat := (bitLength c.p + 7) >>> 3

/-- `sec_to_public_pair(sec, generator, strict)`.  Coordinates that are not below `generator.p()` are refused
with `EncodingError` (both modes). -/
def secToPublicPair (c : CurveParams) (sec : Bytes) (strict : Bool) : Except Err (Int × Int) :=
  let bc := byteCount c
  let x := fromBytes32 (slice sec 1 (1 + bc))
  let sec0 := sec.take 1
  if sec.length = 1 + bc * 2 then
    let isok := sec0 = [4] ∨ (¬ strict ∧ (sec0 = [6] ∨ sec0 = [7]))
    if isok then
      let y := fromBytes32 (slice sec (1 + bc) (1 + 2 * bc))
      if x ≥ c.p ∨ y ≥ c.p then .error .encodingError else .ok (x, y)
    else .error .encodingError
  else if sec.length = 1 + bc then
    if ¬ strict ∨ sec0 = [2] ∨ sec0 = [3] then
      if x ≥ c.p then .error .encodingError
      else
        let isYOdd := sec0 ≠ [2]
        match Curve.pointsForX c x with
        | .error e => .error (.curve e)
        | .ok (p0, p1) =>
          match (if isYOdd then p1 else p0) with
          | some P => .ok P
          | none => .error .typeError     -- unreachable: `points_for_x` builds both entries with `self.Point(x, y)`
    else .error .encodingError
  else .error .encodingError

/-- `is_sec_compressed(sec)` -/
def isSecCompressed (sec : Bytes) : Bool := sec.take 1 = [2] ∨ sec.take 1 = [3]

/-- `is_sec(sec)` -/
def isSec (sec : Bytes) : Bool :=
  if (sec.take 1 = [2] ∨ sec.take 1 = [3]) ∧ sec.length = 33 then true
  else sec.take 1 = [4] ∧ sec.length = 65

/-- `public_pair_to_hash160_sec(public_pair, compressed)` -/
def publicPairToHash160Sec (x y : Int) (compressed : Bool) : Except Err Bytes :=
  (publicPairToSec x y compressed).map Hash.hash160

end Pycoin.Sec
