import Pycoin.Model.Address
import Pycoin.Model.Base58
import Pycoin.Model.Base58Hash
import Pycoin.Model.Bech32
import Pycoin.Model.Hash
/-!
The address model's `Env` instantiated with the C11 codec models and the hash models: what the driver evaluates and
what the `_real` theorems of `Props/C08.lean` are about (no codec hypothesis left).

A Python `str` reaches the Base58 functions as its UTF-8 bytes.  Every Base58 character is ASCII and every byte of the
UTF-8 form of a non-ASCII character is ≥ 0x80, hence outside the alphabet (`a2b_base58` raises, `cache` answers `None`):
so the decoder is modelled as "`None` unless all characters are ASCII, else decode the code points as bytes".
-/
namespace Pycoin.Addr

def asciiString (b : Bytes) : String := String.ofList (b.map (fun x => Char.ofNat x.toNat))

def asciiBytesOf (s : String) : Bytes := s.toList.map (fun c => UInt8.ofNat c.toNat)

def isAscii (s : String) : Bool := s.toList.all (fun c => c.toNat < 128)

def realEnv : Env where
  b58cEnc k d := match Base58.b2aHashedK k d with
    | .ok s => asciiString s
    | .error _ => "<b2a_hashed_base58 raised>"     -- Base58.b2aK_ok: never
  b58cDec k s := if isAscii s then Base58.parseB58HashedK k (asciiBytesOf s) else none
  segwitEnc hrp ver prog := match Bech32.encode hrp.toList ver (prog.map (·.toNat)) with
    | .ok (some cs) => some (String.ofList cs)
    | _ => none
  bech32Parse s := match Bech32.parseBech32 s.toList with
    | some (hrp, ver, dec, spec) =>
      some (String.ofList hrp, ver, dec.map UInt8.ofNat, match spec with | .bech32 => .bech32 | .bech32m => .bech32m)
    | none => none
  hash160 := Hash.hash160
  sha256 := Hash.sha256

end Pycoin.Addr
