import Pycoin.Model.ParseableStr
import Pycoin.Model.NetworkDef
/-!
Base58Check with the checksum hash as a parameter (C08 / C09 / C10 / C18 on every network, Groestlcoin family included).

* `encoding/b58.py:b2a_hashed_base58(data) = b2a_base58(data + double_sha256(data)[:4])` and the Groestlcoin copies
  `symbols/{grs,tgrs,grsrt}.py:b2a_hashed_base58_grs(data) = b2a_base58(data + groestlHash(data)[:4])` are one function
  of the hash: `b2aHashedWith`.
* `parseable_str.b58_double_sha256` and `coins/groestlcoin/parse.py:b58_groestl` are one function of the hash:
  `parseB58HashedWith` (the shared body is `Pstr.checkHashed`, C11's model; the cache around it is transparent,
  `C11_pstr_cache_transparent`).

Which hash a network uses on which code path is a field of the generated table (`Network.hashParse`, `hashAddr`, …:
`HashKind`).  `hashFn` maps the kind to the function.  For `.groestl` that is the STAND-IN of `translate/grs_stub.py`
(`sha256(prefix ‖ data)`, C11's `Pstr.grsHash`): the optional `groestlcoin_hash` package is absent, harness and translator
install the stand-in, and the model mirrors it.  The theorems use ONE fact about it — `hashFn_length`: the result has 32
bytes (at least 4 would do) — so they hold verbatim for the real Groestl-512 compound hash, a function from byte strings
to 32 bytes (ASSUMPTION, stated in the harness modules; no axiom).
-/
namespace Pycoin.Base58
open Pycoin.Addr (HashKind)

/-- `b2a_base58(data + hash(data)[:4])` -/
def b2aHashedWith (h : Bytes → Bytes) (data : Bytes) : Except Err Bytes :=
  b2a (data ++ (h data).take 4)

/-- `b58_double_sha256` / `b58_groestl`: `data = parse_b58(s); if data: …` -/
def parseB58HashedWith (h : Bytes → Bytes) (s : Bytes) : Option Bytes :=
  Pstr.checkHashed h (parseB58 s)

/-- the checksum hash of a kind (`.groestl`: the stand-in) -/
def hashFn : HashKind → Bytes → Bytes
  | .sha256d => Hash.dsha256
  | .groestl => Pstr.grsHash

/-- Base58Check text under the checksum hash of kind `k` -/
def b2aHashedK (k : HashKind) (data : Bytes) : Except Err Bytes := b2aHashedWith (hashFn k) data

/-- Base58Check payload under the checksum hash of kind `k` (`None`: bad character, empty, wrong checksum) -/
def parseB58HashedK (k : HashKind) (s : Bytes) : Option Bytes := parseB58HashedWith (hashFn k) s

/-- the double SHA-256 instances are the C11 functions -/
theorem b2aHashedK_sha (d : Bytes) : b2aHashedK .sha256d d = b2aHashed d := rfl

theorem parseB58HashedK_sha (s : Bytes) : parseB58HashedK .sha256d s = parseB58DoubleSha256 s := by
  unfold parseB58HashedK parseB58HashedWith parseB58DoubleSha256 Pstr.checkHashed hashFn
  cases parseB58 s <;> rfl

end Pycoin.Base58
