import Pycoin.Model.Sign
import Pycoin.Model.RFC6979
import Pycoin.Gen.Curves
/-!
C05 — the signer's `Crypto` parameter instantiated with the C01/C02 models of `secp256k1_generator`
(RFC 6979 nonces with SHA-256, blinding factor 0: the result does not depend on it, C02).
-/
namespace Pycoin.Sign
open Pycoin Pycoin.Curve

def secp256k1Crypto : Crypto :=
  let c := Pycoin.Gen.Curves.secp256k1
  { order := c.n
    sign := RFC6979.sign c 0
    verify := Curve.verify c 0
    secToPair := secToPublicPair c }

end Pycoin.Sign
