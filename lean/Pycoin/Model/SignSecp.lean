import Pycoin.Model.Sign
import Pycoin.Model.RFC6979
import Pycoin.Gen.Curves
import Pycoin.Model.Sighash
/-!
C05 — the signer's `Crypto` parameter instantiated with the C01/C02 models of `secp256k1_generator`
(RFC 6979 nonces with SHA-256, blinding factor 0: the result does not depend on it, C02).
-/
namespace Pycoin.Sign
open Pycoin Pycoin.Curve

def secp256k1Crypto : Crypto :=
  let c := Pycoin.Gen.Curves.secp256k1
  { order := c.n
    sign := RFC6979.sign c 0
    verify := Curve.verify c 0
    secToPair := secToPublicPair c }

/-- the signer's `signature_for_hash_type_f` of input `idx` computed by C04's model (`Model/Sighash.lean`): the BIP143
closure of `_make_witness_sighash_f` when `witness`, else the closure of `_make_sighash_f`; no signature is removed from the
script code at signing time (`sig_blobs = []`).  `none` = `ScriptError` (any failure of the digest function). -/
def modelSighash (c : Coin) (tx : Tx) (us : List (Option TxOut)) (idx : Nat) (witness : Bool) (code : Bytes) : Digest :=
  fun ht =>
    match (if witness then Sighash.witnessSighashF c tx us code [] idx ht else Sighash.sighashF c tx us code [] idx ht) with
    | .ok z => some (z : Int)
    | .error _ => none

end Pycoin.Sign
