import Pycoin.Py.Bytes
/-!
C02 / C01 — model of `pycoin/ecdsa/Curve.py`, `Point.py`, `Generator.py` (pure-Python path).

Conventions
* a curve is `(p, a, b)` with the generator `(gx, gy)` and the order `n`; `n = 0` stands for
  `order=None` (the code tests `if self._order:`, which treats `None` and `0` alike);
* a point is `Option (Int × Int)`, `none` being `(None, None)` = the point at infinity; coordinates are
  arbitrary Python integers (possibly unreduced or negative: the code tolerates them through `% p`);
* Python `%` / `//` are `Pycoin.fmod` / `Pycoin.fdiv` (floor semantics).  A zero modulus (Python:
  `ZeroDivisionError`) is outside every quantifier (p is a prime, n is 0 or a prime) and is not modelled;
* exceptions are the enum `Err`, printed as the Python exception class name;
* loops without a syntactic bound take fuel; for every one of them the fuel used by the model is proved
  sufficient (`Props/C02.lean`), except the RFC 6979 retry loop, which has no termination argument.
-/
namespace Pycoin.Curve

inductive Err
  | assertion     -- AssertionError
  | noSuchPoint   -- NoSuchPointError (a ValueError subclass)
  | value         -- ValueError
  | type          -- TypeError (arithmetic on the `None` coordinates of infinity)
  | overflow      -- OverflowError (`int.to_bytes`)
  | outOfFuel     -- never produced on the inputs the theorems cover
  deriving DecidableEq, Repr

def Err.tag : Err → String
  | .assertion => "AssertionError"
  | .noSuchPoint => "NoSuchPointError"
  | .value => "ValueError"
  | .type => "TypeError"
  | .overflow => "OverflowError"
  | .outOfFuel => "OutOfFuel"

/-- `isinstance(e, ValueError)` for the `except ValueError` clauses -/
def Err.isValueError : Err → Bool
  | .noSuchPoint => true
  | .value => true
  | _ => false

structure CurveParams where
  p : Nat
  a : Int
  b : Int
  gx : Int
  gy : Int
  /-- the order; `0` = `None` -/
  n : Nat
  deriving DecidableEq, Repr

abbrev Pt := Option (Int × Int)

/-! ### `Curve.inverse_mod` -/

/-- the `while c != 0` loop of `inverse_mod`; returns `(d, ud)`.  `c` strictly decreases, so fuel
`c + 1` is enough (`egcdLoop_fuel`). -/
def egcdLoop : Nat → Int → Int → Int → Int → Int → Int → Except Err (Int × Int)
  | 0, _, _, _, _, _, _ => .error .outOfFuel
  | f + 1, c, d, uc, vc, ud, vd =>
    if c = 0 then .ok (d, ud)
    else
      let q := fdiv d c
      egcdLoop f (fmod d c) c (ud - q * uc) (vd - q * vc) uc vc

/-- `Curve.inverse_mod(a, m)` -/
def inverseMod (a m : Int) : Except Err Int :=
  let a := if a < 0 ∨ m ≤ a then fmod a m else a
  match egcdLoop (a.toNat + 1) a m 1 0 0 1 with
  | .error e => .error e
  | .ok (d, ud) =>
    if d ≠ 1 then .error .assertion
    else if ud > 0 then .ok ud else .ok (ud + m)

/-! ### `Curve.contains_point`, `Curve.Point`, `Point.__neg__`, `Curve.add` -/

def containsXY (c : CurveParams) (x y : Int) : Bool :=
  fmod (y * y - (x * x * x + c.a * x + c.b)) c.p == 0

/-- `Curve.contains_point(*P)` -/
def containsPoint (c : CurveParams) : Pt → Bool
  | none => true
  | some (x, y) => containsXY c x y

/-- `Curve.Point(x, y)`: the constructor checks the curve equation -/
def mkPoint (c : CurveParams) (x y : Int) : Except Err Pt :=
  if containsXY c x y then .ok (some (x, y)) else .error .noSuchPoint

/-- `Point.__neg__`: `(x, p − y)`; on infinity `p − None` is a `TypeError` -/
def neg (c : CurveParams) : Pt → Except Err Pt
  | none => .error .type
  | some (x, y) => mkPoint c x (c.p - y)

def addFinish (c : CurveParams) (x0 y0 x1 slope : Int) : Except Err Pt :=
  let x3 := fmod (slope * slope - x0 - x1) c.p
  let y3 := fmod (slope * (x0 - x3) - y0) c.p
  mkPoint c x3 y3

/-- `Curve.add(p0, p1)` -/
def add (c : CurveParams) (p0 p1 : Pt) : Except Err Pt :=
  match p0, p1 with
  | none, _ => .ok p1
  | some _, none => .ok p0
  | some (x0, y0), some (x1, y1) =>
    if fmod (x0 - x1) c.p = 0 then
      if fmod (y0 + y1) c.p = 0 then .ok none
      else
        match inverseMod (2 * y0) c.p with
        | .error e => .error e
        | .ok inv => addFinish c x0 y0 x1 (fmod ((3 * x0 * x0 + c.a) * inv) c.p)
    else
      match inverseMod (x1 - x0) c.p with
      | .error e => .error e
      | .ok inv => addFinish c x0 y0 x1 (fmod ((y1 - y0) * inv) c.p)

/-- `Point.__sub__`: `add(self, -other)` -/
def sub (c : CurveParams) (p0 p1 : Pt) : Except Err Pt :=
  match neg c p1 with
  | .error e => .error e
  | .ok q => add c p0 q

/-! ### `_leftmost_bit`, `Curve.multiply` -/

/-- `while result <= x: result <<= 1` then `result >> 1` -/
def lmbLoop : Nat → Nat → Nat → Except Err Nat
  | 0, _, _ => .error .outOfFuel
  | f + 1, r, x => if r ≤ x then lmbLoop f (r <<< 1) x else .ok (r >>> 1)

/-- `_leftmost_bit(x)`; `assert x > 0` -/
def leftmostBit (x : Int) : Except Err Nat :=
  if x ≤ 0 then .error .assertion else lmbLoop (x.toNat + 1) 1 x.toNat

/-- the `while i > 1` loop of `Curve.multiply`; `e`, `e3` are positive there.  Both entries of the
list `v` are computed before one is selected, exactly as in the code. -/
def ladderLoop (c : CurveParams) (P : Pt) (e e3 : Nat) : Nat → Nat → Pt → Except Err Pt
  | fuel, i, result =>
    if i ≤ 1 then .ok result
    else match fuel with
      | 0 => .error .outOfFuel
      | f + 1 =>
        match add c result result with
        | .error er => .error er
        | .ok r2 =>
          if e3 &&& i ≠ 0 then
            match add c r2 P with
            | .error er => .error er
            | .ok s => ladderLoop c P e e3 f (i >>> 1) (if e &&& i ≠ 0 then r2 else s)
          else
            match sub c r2 P with
            | .error er => .error er
            | .ok s => ladderLoop c P e e3 f (i >>> 1) (if e &&& i ≠ 0 then s else r2)

/-- `Curve.multiply(P, e)` (pure-Python class) -/
def multiply (c : CurveParams) (P : Pt) (e : Int) : Except Err Pt :=
  let e := if c.n ≠ 0 then fmod e c.n else e
  if P = none ∨ e = 0 then .ok none
  else
    match leftmostBit (3 * e) with
    | .error er => .error er
    | .ok l =>
      let i := l >>> 1
      ladderLoop c P e.toNat (3 * e).toNat i i P

/-! ### `Generator` -/

/-- the 256-entry table `_powers` built by the constructor (`Gp += Gp`) -/
def powersLoop (c : CurveParams) : Nat → Pt → Except Err (List Pt)
  | 0, _ => .ok []
  | k + 1, g =>
    match add c g g with
    | .error e => .error e
    | .ok g2 =>
      match powersLoop c k g2 with
      | .error e => .error e
      | .ok l => .ok (g :: l)

def basis (c : CurveParams) : Pt := some (c.gx, c.gy)

def powers (c : CurveParams) : Except Err (List Pt) := powersLoop c 256 (basis c)

/-- the `for bit in range(256)` loop of `raw_mul` over the table -/
def rawMulLoop (c : CurveParams) : List Pt → Int → Pt → Except Err Pt
  | [], _, P => .ok P
  | g :: gs, e, P =>
    match add c P g with
    | .error er => .error er
    | .ok s => rawMulLoop c gs (fdiv e 2) (if fmod e 2 = 1 then s else P)

/-- `Generator.raw_mul(e)` (pure-Python class; `assert self._order is not None`) -/
def rawMul (c : CurveParams) (e : Int) : Except Err Pt :=
  if c.n = 0 then .error .assertion
  else
    match powers c with
    | .error er => .error er
    | .ok tbl => rawMulLoop c tbl (fmod e c.n) none

/-- `Generator.__mul__(e)` with blinding factor `bf`:
`raw_mul(e + bf) + _minus_blinding_factor_g`, the latter being `raw_mul(-bf)` -/
def mulG (c : CurveParams) (bf : Int) (e : Int) : Except Err Pt :=
  match rawMul c (e + bf) with
  | .error er => .error er
  | .ok a =>
    match rawMul c (-bf) with
    | .error er => .error er
    | .ok m => add c a m

/-- `pow(a, e, m)` for `e ≥ 0`: square and multiply (Python's builtin, modelled) -/
def powMod (a : Int) (e : Nat) (m : Int) : Int :=
  if _h : e = 0 then fmod 1 m
  else
    let h := powMod a (e / 2) m
    let h2 := fmod (h * h) m
    if e % 2 = 1 then fmod (h2 * a) m else h2
termination_by e
decreasing_by omega

/-- `Generator.modular_sqrt(a)`: `pow(a, (p + 1) // 4, p)` -/
def modularSqrt (c : CurveParams) (a : Int) : Int :=
  powMod a (fdiv ((c.p : Int) + 1) 4).toNat c.p

/-- `Generator.points_for_x(x)` -/
def pointsForX (c : CurveParams) (x : Int) : Except Err (Pt × Pt) :=
  let p : Int := c.p
  let alpha := fmod (powMod x 3 p + c.a * x + c.b) p
  let y0 := modularSqrt c alpha
  if y0 = 0 then .error .value
  else
    match mkPoint c x y0 with
    | .error e => .error e
    | .ok p0 =>
      match mkPoint c x (p - y0) with
      | .error e => .error e
      | .ok p1 => if fmod y0 2 = 0 then .ok (p0, p1) else .ok (p1, p0)

/-- `Generator.inverse(a)`: `inverse_mod(a, order)` -/
def inverseN (c : CurveParams) (a : Int) : Except Err Int :=
  if c.n = 0 then .error .assertion else inverseMod a c.n

def mapMExcept {α β} (f : α → Except Err β) : List α → Except Err (List β)
  | [] => .ok []
  | a :: as =>
    match f a with
    | .error e => .error e
    | .ok b =>
      match mapMExcept f as with
      | .error e => .error e
      | .ok bs => .ok (b :: bs)

/-- `Generator.possible_public_pairs_for_signature(value, (r, s), y_parity)`;
`yParity = none` is `y_parity=None` -/
def possiblePublicPairsForSignature (c : CurveParams) (bf : Int) (value r s : Int) (yParity : Option Int) :
    Except Err (List Pt) :=
  if r ≥ c.p then .ok [] else
  match pointsForX c r with
  | .error e => if e.isValueError then .ok [] else .error e
  | .ok (q0, q1) =>
    let pts : List Pt :=
      match yParity with
      | none => [q0, q1]
      | some par => if fmod par 2 = 1 then [q1] else [q0]
    match inverseN c r with
    | .error e => .error e
    | .ok invR =>
      let sOverR := s * invR
      match mulG c bf (-(invR * value)) with
      | .error e => .error e
      | .ok minusEOverR =>
        match mapMExcept (fun q =>
            match multiply c q sOverR with
            | .error e => .error e
            | .ok t => add c t minusEOverR) pts with
        | .error e => if e.isValueError then .ok [] else .error e
        | .ok l => .ok l

/-- `Generator.verify(public_pair, val, (r, s))` -/
def verify (c : CurveParams) (bf : Int) (Q : Pt) (val r s : Int) : Except Err Bool :=
  if val = 0 then .ok false
  else if r < 1 ∨ r ≥ c.n ∨ s < 1 ∨ s ≥ c.n then .ok false
  else
    match inverseN c s with
    | .error e => .error e
    | .ok sInv =>
      let u1 := val * sInv
      let u2 := r * sInv
      match mulG c bf u1 with
      | .error e => .error e
      | .ok a =>
        -- `self.Point(*public_pair)`: (None, None) passes `contains_point`
        if ¬ containsPoint c Q then .error .noSuchPoint
        else
          match multiply c Q u2 with
          | .error e => .error e
          | .ok b =>
            match add c a b with
            | .error e => .error e
            | .ok none => .ok false          -- `if point == self._infinity: return False`
            | .ok (some (x, _)) => .ok (fmod x c.n = r)

/-- the `while True` loop of `sign_with_recid`.  `k` runs through consecutive integers and
`k ≡ 0 (mod n)` ends the loop with a `TypeError` (`None % n`), so fuel `n + 1` is always enough. -/
def signLoop (c : CurveParams) (bf d val : Int) : Nat → Int → Except Err (Int × Int × Int)
  | 0, _ => .error .outOfFuel
  | f + 1, k =>
    match mulG c bf k with
    | .error e => .error e
    | .ok none => .error .type
    | .ok (some (x, y)) =>
      let n : Int := c.n
      let r := fmod x n
      match inverseN c k with
      | .error e => .error e
      | .ok kInv =>
        let s := fmod (kInv * (val + fmod (d * r) n)) n
        if r ≠ 0 ∧ s ≠ 0 then
          .ok (r, s, fmod y 2 + (if x > n then 2 else 0))
        else signLoop c bf d val f (k + 1)

/-- `Generator.sign_with_recid(secret_exponent, val, gen_k)` -/
def signWithRecid (c : CurveParams) (bf : Int) (genK : Nat → Int → Int → Except Err Int) (d val : Int) :
    Except Err (Int × Int × Int) :=
  if val = 0 then .error .value
  else
    match genK c.n d val with
    | .error e => .error e
    | .ok k => signLoop c bf d val (c.n + 1) k

/-- `Generator.sign` -/
def sign (c : CurveParams) (bf : Int) (genK : Nat → Int → Int → Except Err Int) (d val : Int) :
    Except Err (Int × Int) :=
  match signWithRecid c bf genK d val with
  | .error e => .error e
  | .ok (r, s, _) => .ok (r, s)

/-- what `Generator.__init__` checks: basis on the curve, the table builds, `p % 4 == 3`, then `raw_mul(-bf)` -/
def generatorInit (c : CurveParams) (bf : Int) : Except Err Unit :=
  if ¬ containsXY c c.gx c.gy then .error .noSuchPoint
  else
    match powers c with
    | .error e => .error e
    | .ok _ =>
      if fmod c.p 4 ≠ 3 then .error .assertion
      else
        match rawMul c (-bf) with
        | .error e => .error e
        | .ok _ => .ok ()

/-- `generate_shared_public_key(my_private_key, their_public_pair, generator)` -/
def sharedPublicKey (c : CurveParams) (d : Int) (Q : Pt) : Except Err Pt :=
  if ¬ containsPoint c Q then .error .noSuchPoint else multiply c Q d

end Pycoin.Curve
