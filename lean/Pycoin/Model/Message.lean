import Pycoin.Model.Block
import Pycoin.Model.MerkleBlock
/-!
C16 — model of `pycoin/message/make_parser_and_packer.py` (`_make_parser`, `make_parser_and_packer.parse_from_data`,
`pack_from_data`, the codec pairs of `standard_parsing_functions`, the alert and merkleblock post-processors),
`pycoin/serialize/streamer.py` (`Streamer.parse_struct` / `stream_struct` / `parse_as_dict` over an arbitrary
letter table), `pycoin/message/InvItem.py` and `PeerAddress.py` (`parse`, `stream`, constructors' assertions).

The engine is generic in the letter table (`Table`); `stdTable` is the table of
`standard_streamer(standard_parsing_functions(network.block, network.tx))`, built from the generated
classification `Gen.Messages.letters`.
-/
namespace Pycoin.Msg
open Pycoin.Wire (Kind Val)

/-- Python values that travel through pack / parse -/
inductive MVal
  | int (v : Int)
  | bytes (b : Bytes)
  | bool (b : Bool)
  | none
  | addr (services : Int) (ip : Bytes) (port : Int)   -- `PeerAddress`
  | inv (type : Int) (data : Bytes)                   -- `InvItem`
  | tx (t : Tx)
  | block (b : Block)                                 -- a `Block`; header-only when `b.txs = []`
  | blockBtg (b : BtgBlock)                           -- a Bitcoin Gold `Block`
  | seq (l : List MVal)                               -- tuple or list
  | dict (l : List (List Char × MVal))                -- `alert_info`

abbrev MParser := Bytes → Except Err (MVal × Bytes)

/-- one registered `(parse_f, stream_f)` pair -/
structure CodecImpl where
  ser : MVal → Except Err Bytes
  parse : MParser

abbrev Table := Char → Option CodecImpl

/-! ## `Streamer.stream_struct` / `parse_struct` over a table -/

/-- `for c, v in zip(fmt, args): self.stream_lookup[c](f, v)` -/
def streamStruct (tbl : Table) : List Char → List MVal → Except Err Bytes
  | c :: cs, v :: vs =>
    match tbl c with
    | Option.none => .error .keyError
    | some ci =>
      match ci.ser v with
      | .error e => .error e
      | .ok a =>
        match streamStruct tbl cs vs with
        | .error e => .error e
        | .ok r => .ok (a ++ r)
  | _, _ => .ok []

/-- `for j in range(count): array.append(…)` -/
def parseN {α : Type} (p : Bytes → Except Err (α × Bytes)) : Nat → Bytes → Except Err (List α × Bytes)
  | 0, b => .ok ([], b)
  | n + 1, b =>
    match p b with
    | .error e => .error e
    | .ok (a, r) =>
      match parseN p n r with
      | .error e => .error e
      | .ok (as, r') => .ok (a :: as, r')

/-- `parse_struct(subfmt, f)` for the text between `[` and the first `]` (it holds no `]`; a `[` in it has no
closing bracket: `ValueError`) -/
def parseFlat (tbl : Table) : List Char → Bytes → Except Err (List MVal × Bytes)
  | [], b => .ok ([], b)
  | c :: cs, b =>
    if c = '[' then .error .valueError
    else match tbl c with
      | Option.none => .error .keyError
      | some ci =>
        match ci.parse b with
        | .error e => .error e
        | .ok (v, r) =>
          match parseFlat tbl cs r with
          | .error e => .error e
          | .ok (vs, r') => .ok (v :: vs, r')

/-- one array element: `parse_struct(subfmt, f)[0]` for a one-letter `subfmt`, the whole tuple otherwise -/
def parseElem (tbl : Table) (sub : List Char) : MParser := fun b =>
  match parseFlat tbl sub b with
  | .error e => .error e
  | .ok (vs, r) =>
    if sub.length = 1 then
      match vs with
      | [v] => .ok (v, r)
      | _ => .error .indexError
    else .ok (.seq vs, r)

/-- `Streamer.parse_struct(fmt, f)`; the `Option` argument is `some acc` while the characters after a `[` are being
collected up to the first `]` (`fmt.find("]", i)`) -/
def parseStructGo (tbl : Table) (count : Bytes → Except Err (Nat × Bytes)) :
    List Char → Option (List Char) → Bytes → Except Err (List MVal × Bytes)
  | [], Option.none, b => .ok ([], b)
  | [], some _, _ => .error .valueError
  | c :: cs, Option.none, b =>
    if c = '[' then
      if cs.contains ']' then parseStructGo tbl count cs (some []) b else .error .valueError
    else match tbl c with
      | Option.none => .error .keyError
      | some ci =>
        match ci.parse b with
        | .error e => .error e
        | .ok (v, r) =>
          match parseStructGo tbl count cs Option.none r with
          | .error e => .error e
          | .ok (vs, r') => .ok (v :: vs, r')
  | c :: cs, some acc, b =>
    if c = ']' then
      match count b with
      | .error e => .error e
      | .ok (n, r) =>
        match parseN (parseElem tbl acc.reverse) n r with
        | .error e => .error e
        | .ok (items, r') =>
          match parseStructGo tbl count cs Option.none r' with
          | .error e => .error e
          | .ok (vs, r'') => .ok (.seq items :: vs, r'')
    else parseStructGo tbl count cs (some (c :: acc)) b

def parseStruct (tbl : Table) (count : Bytes → Except Err (Nat × Bytes)) (fmt : List Char) :
    Bytes → Except Err (List MVal × Bytes) :=
  parseStructGo tbl count fmt Option.none

/-! ## layout strings -/

/-- Python `s.split(sep)` for a one-character separator -/
def splitOn (sep : Char) : List Char → List (List Char)
  | [] => [[]]
  | c :: cs =>
    if c = sep then [] :: splitOn sep cs
    else match splitOn sep cs with
      | [] => [[c]]
      | p :: ps => (c :: p) :: ps

/-- Python `s.split()`: pieces between runs of whitespace, none empty -/
def splitWs (s : List Char) : List (List Char) := (splitOn ' ' (s.map fun c => if c.isWhitespace then ' ' else c)).filter (· ≠ [])

/-- `[t.split(":") for t in the_struct.split(" ")]` then `for name, type in pairs` (`ValueError` unless two pieces) -/
def packPairs (layout : List Char) : Except Err (List (List Char × List Char)) :=
  (splitOn ' ' layout).mapM fun t =>
    match splitOn ':' t with
    | [n, ty] => .ok (n, ty)
    | _ => .error .valueError

/-- `_make_parser`: `struct_items = [s.split(":") for s in the_struct.split()]`, `names = [s[0] …]`,
`types = "".join(s[1] …)` (`IndexError` without a colon) -/
def parserNamesTypes (layout : List Char) : Except Err (List (List Char) × List Char) :=
  match (splitWs layout).mapM (fun s =>
      match splitOn ':' s with
      | n :: ty :: _ => Except.ok (n, ty)
      | _ => Except.error Err.indexError) with
  | .error e => .error e
  | .ok items => .ok (items.map (·.1), (items.map (·.2)).flatten)

abbrev Kwargs := List (List Char × MVal)

def lookup (k : List Char) : Kwargs → Option MVal
  | [] => Option.none
  | (n, v) :: rest => if n = k then some v else lookup k rest

/-- the elements `for v in kwargs[name]` yields, or `TypeError` when the value has no `len()` -/
def iterItems : MVal → Except Err (List MVal)
  | .seq l => .ok l
  | .bytes b => .ok (b.map fun x => MVal.int x.toNat)
  | _ => .error .typeError

/-- `if not isinstance(v, (tuple, list)): v = [v]` -/
def asArgs : MVal → List MVal
  | .seq l => l
  | v => [v]

def streamItems (tbl : Table) (sub : List Char) : List MVal → Except Err Bytes
  | [] => .ok []
  | v :: vs =>
    match streamStruct tbl sub (asArgs v) with
    | .error e => .error e
    | .ok a =>
      match streamItems tbl sub vs with
      | .error e => .error e
      | .ok r => .ok (a ++ r)

/-- one `name, type` step of `pack_from_data` -/
def packField (tbl : Table) (countLetter : List Char) (kwargs : Kwargs) (name ty : List Char) : Except Err Bytes :=
  match ty with
  | [] => .error .indexError                      -- `type[0]`
  | c :: rest =>
    if c = '[' then
      match lookup name kwargs with
      | Option.none => .error .keyError
      | some v =>
        match iterItems v with
        | .error e => .error e
        | .ok items =>
          match streamStruct tbl countLetter [.int items.length] with
          | .error e => .error e
          | .ok n =>
            match streamItems tbl rest.dropLast items with   -- `type[1:-1]`
            | .error e => .error e
            | .ok body => .ok (n ++ body)
    else
      match lookup name kwargs with
      | Option.none => .error .keyError
      | some v => streamStruct tbl ty [v]

def packFields (tbl : Table) (countLetter : List Char) (kwargs : Kwargs) : List (List Char × List Char) → Except Err Bytes
  | [] => .ok []
  | (n, ty) :: rest =>
    match packField tbl countLetter kwargs n ty with
    | .error e => .error e
    | .ok a =>
      match packFields tbl countLetter kwargs rest with
      | .error e => .error e
      | .ok r => .ok (a ++ r)

/-- `pack_from_data(message_name, **kwargs)` for the layout string of that message -/
def packLayout (tbl : Table) (countLetter : List Char) (layout : List Char) (kwargs : Kwargs) : Except Err Bytes :=
  if layout = [] then .ok []
  else
    match packPairs layout with
    | .error e => .error e
    | .ok pairs => packFields tbl countLetter kwargs pairs

/-- `dict(zip(names, values))` for distinct names -/
def zipDict : List (List Char) → List MVal → Kwargs
  | n :: ns, v :: vs => (n, v) :: zipDict ns vs
  | _, _ => []

/-- the parser `_make_parser(streamer, the_struct)` returns -/
def parseLayout (tbl : Table) (count : Bytes → Except Err (Nat × Bytes)) (layout : List Char) (data : Bytes) :
    Except Err (Kwargs × Bytes) :=
  match parserNamesTypes layout with
  | .error e => .error e
  | .ok (names, types) =>
    match parseStruct tbl count types data with
    | .error e => .error e
    | .ok (vals, r) => .ok (zipDict names vals, r)

/-! ## the standard codecs -/

def toWire : MVal → Option Val
  | .int v => some (.int v)
  | .bytes b => some (.bytes b)
  | .bool b => some (.bool b)
  | _ => Option.none

def ofWire : Val → MVal
  | .int v => .int v
  | .bytes b => .bytes b
  | .bool b => .bool b
  | .tup _ => .none

def primImpl (k : Kind) : CodecImpl where
  ser v :=
    match toWire v with
    | Option.none => .error .typeError
    | some w => liftW (Wire.streamLetter k w)
  parse b :=
    match Wire.parseLetter k b with
    | .error e => .error (.wire e)
    | .ok (w, r) => .ok (ofWire w, r)

/-- `struct.pack(fmt, v)` for the formats PeerAddress.stream uses -/
def structPack (fmt : List Char) (v : Int) : Except Err Bytes :=
  if fmt = ['<', 'Q'] then liftW (Wire.packLE 8 v)
  else if fmt = ['<', 'L'] then liftW (Wire.packLE 4 v)
  else if fmt = ['<', 'H'] then liftW (Wire.packLE 2 v)
  else if fmt = ['!', 'H'] then liftW (Wire.packBE 2 v)
  else if fmt = ['!', 'L'] then liftW (Wire.packBE 4 v)
  else if fmt = ['!', 'Q'] then liftW (Wire.packBE 8 v)
  else .error (.wire .structError)

/-- `IP4_HEADER` -/
def ip4Header : Bytes := [0, 0, 0, 0, 0, 0, 0, 0, 0, 0, 0xff, 0xff]

open Pycoin.Gen.Messages in
/-- `PeerAddress.stream`: `struct.pack(p₀, services)`, the raw `ip_bin`, `struct.pack(p₁, port)` -/
def peerAddressSer : MVal → Except Err Bytes
  | .addr s ip p =>
    match peerAddress_stream_packs with
    | [f0, f1] =>
      match structPack f0 s with
      | .error e => .error e
      | .ok a =>
        match structPack f1 p with
        | .error e => .error e
        | .ok c => .ok (a ++ (ip ++ c))
    | _ => .error .typeError
  | _ => .error (.wire .attributeError)

open Pycoin.Gen.Messages in
/-- `PeerAddress.parse`: `parse_struct("Q@h", f)` with the satoshi table, then the constructor
(a 4-byte address gets the IPv4 prefix; `assert len(ip_bin) == 16`) -/
def peerAddressParse : MParser := fun b =>
  match Wire.parseStruct Pycoin.tbl peerAddress_parse_parse b with
  | .error e => .error (.wire e)
  | .ok ([.int s, .bytes ip, .int p], r) =>
    let ip := if ip.length = 4 then ip4Header ++ ip else ip
    if ip.length = 16 then .ok (.addr s ip p, r) else .error .assertionError
  | .ok _ => .error .typeError

open Pycoin.Gen.Messages in
def invItemSer : MVal → Except Err Bytes
  | .inv t d => liftW (Wire.streamStruct Pycoin.tbl invItem_stream_stream [.int t, .bytes d])
  | _ => .error (.wire .attributeError)

open Pycoin.Gen.Messages in
/-- `InvItem.parse`: `cls(*parse_struct("L#", f), dont_check=True)`; `assert len(data) == 32` -/
def invItemParse : MParser := fun b =>
  match Wire.parseStruct Pycoin.tbl invItem_parse_parse b with
  | .error e => .error (.wire e)
  | .ok ([.int t, .bytes d], r) => if d.length = 32 then .ok (.inv t d, r) else .error .assertionError
  | .ok _ => .error .typeError

/-- the behaviour of each classified pair; `c` is the network's coin (its `Tx` / `Block` classes) -/
def codecImpl (c : Coin) : Codec → CodecImpl
  | .prim k => primImpl k
  | .int6 => primImpl (.uintLE 6)     -- pad-to-8 / `<Q` / cut-to-6 with the range check is the 6-byte little-endian codec
  | .int6Trunc =>
    { ser := fun v => match v with
        | .int x => (liftW (Wire.packLE 8 x)).map (·.take 6)
        | _ => .error .typeError
      parse := (primImpl (.uintLE 6)).parse }
  | .int6Raises => { ser := fun _ => .error .typeError, parse := fun _ => .error (.wire .structError) }
  | .optBool =>
    { ser := fun v => match v with
        | .none => .ok []
        | .bool b => .ok [if b then 1 else 0]
        | .int x => liftW (Wire.packLE 1 x)
        | _ => .error (.wire .structError)
      parse := fun b => match b with
        | [] => .ok (.none, [])
        | x :: r => .ok (.bool (x != 0), r) }
  | .optBoolAnyByte =>
    { ser := fun v => match v with
        | .none => .ok []
        | .bool b => .ok [if b then 1 else 0]
        | .int x => liftW (Wire.packLE 1 x)
        | _ => .error (.wire .structError)
      parse := fun b => match b with
        | [] => .ok (.bool false, [])
        | _ :: r => .ok (.bool true, r) }
  | .peerAddress => { ser := peerAddressSer, parse := peerAddressParse }
  | .invItem => { ser := invItemSer, parse := invItemParse }
  | .tx =>
    { ser := fun v => match v with
        | .tx t => liftW (Tx.stream t)
        | _ => .error .assertionError
      parse := fun b => match Tx.parse c b with
        | .error e => .error (.wire e)
        | .ok (t, r) => .ok (.tx t, r) }
  | .block =>
    { ser := fun v => match v with
        | .block blk => liftW (Block.stream blk)
        | _ => .error .assertionError
      parse := fun b => match Block.parse c true true b with
        | .error e => .error e
        | .ok (blk, r) => .ok (.block blk, r) }
  | .header =>
    { ser := fun v => match v with
        | .block blk => liftW (Block.streamHeader blk.hdr)
        | _ => .error .assertionError
      parse := fun b => match Block.parseAsHeader b with
        | .error e => .error (.wire e)
        | .ok (h, r) => .ok (.block ⟨h, []⟩, r) }
  | .unknown => { ser := fun _ => .error .typeError, parse := fun _ => .error .typeError }

def findLetter (c : Char) : List (Char × Codec) → Option Codec
  | [] => Option.none
  | (x, k) :: rest => if x = c then some k else findLetter c rest

/-- `standard_streamer(standard_parsing_functions(network.block, network.tx))` -/
def stdTable (c : Coin) : Table := fun ch => (findLetter ch Pycoin.Gen.Messages.letters).map (codecImpl c)

/-- `register_array_count_parse(parse_satoshi_int)` -/
def stdCount : Bytes → Except Err (Nat × Bytes) := fun b => liftW (Wire.parseSatoshiInt Option.none b)

/-! ## networks: each has its own streamer (its own table); nothing is shared between them -/

/-- what distinguishes the message codecs of two networks: the transaction class family and the header layout -/
structure Net where
  coin : Coin
  btgHeader : Bool
  deriving DecidableEq, Repr

def btgBlockImpl (c : Coin) : CodecImpl where
  ser v := match v with
    | .blockBtg blk => liftW (BtgBlock.stream blk)
    | _ => .error .assertionError
  parse b := match BtgBlock.parse c b with
    | .error e => .error e
    | .ok (blk, r) => .ok (.blockBtg blk, r)

def btgHeaderImpl : CodecImpl where
  ser v := match v with
    | .blockBtg blk => liftW (BtgBlock.streamHeader blk.hdr)
    | _ => .error .assertionError
  parse b := match BtgBlock.parseAsHeader b with
    | .error e => .error (.wire e)
    | .ok (h, r) => .ok (.blockBtg ⟨h, []⟩, r)

/-- the codec pairs `standard_parsing_functions(network.block, network.tx)` registers for this network -/
def codecImplNet (n : Net) (k : Codec) : CodecImpl :=
  if n.btgHeader then
    match k with
    | .block => btgBlockImpl n.coin
    | .header => btgHeaderImpl
    | k => codecImpl n.coin k
  else codecImpl n.coin k

def netTable (n : Net) : Table := fun ch => (findLetter ch Pycoin.Gen.Messages.letters).map (codecImplNet n)

/-! ## post-processors -/

def asBytesList : List MVal → Option (List Bytes)
  | [] => some []
  | .bytes b :: r => (asBytesList r).map (b :: ·)
  | _ => Option.none

def asByteVals : List MVal → Option Bytes
  | [] => some []
  | .int v :: r => if 0 ≤ v ∧ v < 256 then (asByteVals r).map (UInt8.ofNat v.toNat :: ·) else Option.none
  | _ => Option.none

def liftMB : MerkleBlock.Err → Err
  | .indexError => .indexError
  | .unreachable => .typeError
  | _ => .valueError

/-- `post_unpack_merkleblock(d, f)`: validates the partial merkle tree and adds `tx_hashes` -/
def postUnpackMerkleblock (d : Kwargs) : Except Err Kwargs :=
  match lookup "total_transactions".toList d, lookup "flags".toList d, lookup "hashes".toList d, lookup "header".toList d with
  | some (.int total), some (.seq flags), some (.seq hashes), some hdrv =>
    match asByteVals flags, asBytesList hashes, (match hdrv with
        | .block b => some b.hdr.merkleRoot | .blockBtg b => some b.hdr.merkleRoot | _ => Option.none) with
    | some fl, some hs, some root =>
      match MerkleBlock.verify Pycoin.Hash.dsha256 total.toNat hs fl root with
      | .error e => .error (liftMB e)
      | .ok acc => .ok (d ++ [("tx_hashes".toList, .seq (acc.map MVal.bytes))])
    | _, _, _ => .error .typeError
  | _, _, _, _ => .error .keyError

/-- does `except (struct.error, TypeError, ValueError, OverflowError)` catch it? -/
def alertCaught : Err → Bool
  | .wire .structError | .wire .typeError | .wire .valueError | .wire .overflowError | .valueError | .typeError => true
  | _ => false

/-- `post_unpack_alert(d, f)`: `alert_info` = the payload decoded with the alert sub-layout -/
def postUnpackAlert (tbl : Table) (count : Bytes → Except Err (Nat × Bytes)) (d : Kwargs) : Except Err Kwargs :=
  match lookup "payload".toList d with
  | some (.bytes p) =>
    match parseLayout tbl count Pycoin.Gen.Messages.alertLayout p with
    | .ok (d1, _) => .ok (d ++ [("alert_info".toList, .dict d1)])
    | .error e =>
      if Pycoin.Gen.Messages.alertTolerant && alertCaught e then .ok (d ++ [("alert_info".toList, .none)])
      else .error e
  | _ => .error .keyError

def findLayout (name : List Char) : List (List Char × List Char) → Option (List Char)
  | [] => Option.none
  | (n, l) :: rest => if n = name then some l else findLayout name rest

/-- `network.message.pack(name, **kwargs)` -/
def pack (c : Coin) (name : List Char) (kwargs : Kwargs) : Except Err Bytes :=
  match findLayout name Pycoin.Gen.Messages.layouts with
  | Option.none => .error .keyError
  | some layout => packLayout (stdTable c) Pycoin.Gen.Messages.packCountLetter layout kwargs

/-- `network.message.parse(name, data)` (bytes after the last field are ignored) -/
def parse (c : Coin) (name : List Char) (data : Bytes) : Except Err Kwargs :=
  match findLayout name Pycoin.Gen.Messages.layouts with
  | Option.none => .error .keyError
  | some layout =>
    match parseLayout (stdTable c) stdCount layout data with
    | .error e => .error e
    | .ok (d, _) =>
      if Pycoin.Gen.Messages.postUnpacks.contains name then
        if name = "merkleblock".toList then postUnpackMerkleblock d
        else if name = "alert".toList then postUnpackAlert (stdTable c) stdCount d
        else .ok d
      else .ok d

/-- `network.message.pack` / `.parse` of an arbitrary network -/
def packNet (n : Net) (name : List Char) (kwargs : Kwargs) : Except Err Bytes :=
  match findLayout name Pycoin.Gen.Messages.layouts with
  | Option.none => .error .keyError
  | some layout => packLayout (netTable n) Pycoin.Gen.Messages.packCountLetter layout kwargs

def parseNet (n : Net) (name : List Char) (data : Bytes) : Except Err Kwargs :=
  match findLayout name Pycoin.Gen.Messages.layouts with
  | Option.none => .error .keyError
  | some layout =>
    match parseLayout (netTable n) stdCount layout data with
    | .error e => .error e
    | .ok (d, _) =>
      if Pycoin.Gen.Messages.postUnpacks.contains name then
        if name = "merkleblock".toList then postUnpackMerkleblock d
        else if name = "alert".toList then postUnpackAlert (netTable n) stdCount d
        else .ok d
      else .ok d

/-! ## a process history: calls on several networks, one after the other -/

inductive Call
  | pack (n : Net) (name : List Char) (kwargs : Kwargs)
  | parse (n : Net) (name : List Char) (data : Bytes)

inductive Answer
  | bytes (r : Except Err Bytes)
  | dict (r : Except Err Kwargs)

/-- one call, in a process that has done nothing before -/
def Call.alone : Call → Answer
  | .pack n name kw => .bytes (packNet n name kw)
  | .parse n name data => .dict (parseNet n name data)

/-- the process state the message layer keeps between calls: each network's streamer is built once from immutable
tables and `pack`/`parse` write nothing back, so there is none -/
abbrev ProcState := Unit

def Call.run (_ : ProcState) (c : Call) : Answer × ProcState := (c.alone, ())

def runHistory : ProcState → List Call → List Answer
  | _, [] => []
  | st, c :: cs => (c.run st).1 :: runHistory (c.run st).2 cs

end Pycoin.Msg
