import Pycoin.Py.Bytes
import Pycoin.Model.Hash
import Pycoin.Model.Curve
import Pycoin.Model.Base58
import Pycoin.Model.Base58Hash
import Pycoin.Model.NetworkDef
import Pycoin.Model.Subpaths
/-!
C09 — model of `pycoin/key/bip32.py`, `pycoin/key/BIP32Node.py` (with the parts of `Key.py`,
`encoding/sec.py`, `encoding/bytes32.py` they go through), `BIP49Node.py` / `BIP84Node.py` (text prefix
pair only), `networks/bitcoinish.py: bipNN_as_string` and `networks/ParseAPI.py: hparse, bip32/49/84`.

Conventions
* a `Gen` is the Python `Generator` *object*: curve parameters, the blinding factor drawn by the constructor,
  the 256-entry table `_powers` and `_minus_blinding_factor_g`, both computed once by the constructor
  (`Gen.new`).  `Gen.mul` is `Generator.__mul__` (what `secret_exponent * generator` calls).
  `Props/C09.lean` proves `Gen.mul g e = Curve.mulG g.c g.bf e` for every constructed `g`.
* a public pair is `Int × Int` (Python integers as held: nothing reduces them); the point at infinity
  `(None, None)` is `Curve.Pt`'s `none` and never survives a `Key.__init__`.
* exceptions are the enum `Err`; `Err.tag` is the Python class name (`struct.error`'s class name is `error`).
* `subkey_secret_exponent_chain_code_pair` contains `while True:` with no syntactic bound: the retry loop
  takes **fuel** (`ckdLoop`).  One iteration suffices whenever `I_L < n` and the child is non-zero
  (`C09_ckd_matches_bip32`); each further iteration needs an HMAC-SHA512 output with `I_L ≥ n`
  (probability ≈ 2⁻¹²⁷ each).  The driver runs it with fuel 64.
* the `_subkey_cache` dict is explicit state (`Cache`): `subkey` takes and returns it.
-/
namespace Pycoin.BIP32
open Pycoin
open Pycoin.Curve (CurveParams Pt)

inductive Err
  | value                  -- ValueError
  | invalidSecretExponent  -- InvalidSecretExponentError (ValueError)
  | invalidPublicPair      -- InvalidPublicPairError (ValueError)
  | mismatch               -- PublicPrivateMismatchError (Exception)
  | derivation             -- DerivationError (ValueError)
  | struct                 -- struct.error
  | encoding               -- EncodingError (ValueError)
  | overflow               -- OverflowError
  | index                  -- IndexError
  | type                   -- TypeError
  | curve (e : Curve.Err)
  | outOfFuel              -- the model's own: never produced when fuel ≥ number of retries
  | noObject               -- the model's own: a history step names an object that was never created
  deriving DecidableEq, Repr

def Err.tag : Err → String
  | .value => "ValueError"
  | .invalidSecretExponent => "InvalidSecretExponentError"
  | .invalidPublicPair => "InvalidPublicPairError"
  | .mismatch => "PublicPrivateMismatchError"
  | .derivation => "DerivationError"
  | .struct => "error"
  | .encoding => "EncodingError"
  | .overflow => "OverflowError"
  | .index => "IndexError"
  | .type => "TypeError"
  | .curve e => e.tag
  | .outOfFuel => "OutOfFuel"
  | .noObject => "NoObject"

/-- `isinstance(e, (ValueError, struct.error))` — what the `except` clause of `hparse` catches -/
def Err.caughtByHparse : Err → Bool
  | .value | .invalidSecretExponent | .invalidPublicPair | .derivation | .encoding | .struct => true
  | .curve e => e.isValueError
  | _ => false

def liftC {α} : Except Curve.Err α → Except Err α
  | .ok a => .ok a
  | .error e => .error (.curve e)

/-! ### the `Generator` object -/

structure Gen where
  c : CurveParams
  /-- `_blinding_factor` -/
  bf : Int
  /-- `_powers` -/
  powers : List Pt
  /-- `_minus_blinding_factor_g` -/
  minusBfG : Pt
  deriving Repr

/-- `Generator.raw_mul(e)` on the table held by the object -/
def Gen.rawMul (g : Gen) (e : Int) : Except Curve.Err Pt :=
  if g.c.n = 0 then .error .assertion
  else Curve.rawMulLoop g.c g.powers (fmod e g.c.n) none

/-- `Generator.__mul__(e)`: `raw_mul(e + bf) + _minus_blinding_factor_g` -/
def Gen.mul (g : Gen) (e : Int) : Except Curve.Err Pt :=
  match g.rawMul (e + g.bf) with
  | .error er => .error er
  | .ok a => Curve.add g.c a g.minusBfG

/-- the part of `Generator.__init__` that builds the table and `_minus_blinding_factor_g = raw_mul(-bf)` -/
def Gen.new (c : CurveParams) (bf : Int) : Except Curve.Err Gen :=
  match Curve.powers c with
  | .error e => .error e
  | .ok tbl =>
    let g0 : Gen := ⟨c, bf, tbl, none⟩
    match g0.rawMul (-bf) with
    | .error e => .error e
    | .ok m => .ok ⟨c, bf, tbl, m⟩

/-! ### `encoding/bytes32.py`, `encoding/sec.py` -/

/-- `to_bytes_32(v)` = `v.to_bytes(32, "big")`: `OverflowError` outside `0 ≤ v < 2²⁵⁶` -/
def toBytes32 (v : Int) : Except Err Bytes :=
  if v < 0 ∨ v ≥ 2 ^ 256 then .error .overflow else .ok (beBytes v.toNat 32)

/-- `from_bytes_32(b)` = `int.from_bytes(b, "big")`, of any length -/
def fromBytes32 (b : Bytes) : Int := (beNat b : Nat)

/-- `public_pair_to_sec(pair, compressed=True)`: `bytes([2 + (y & 1)]) + to_bytes_32(x)` -/
def publicPairToSec (pp : Int × Int) : Except Err Bytes :=
  match toBytes32 pp.1 with
  | .error e => .error e
  | .ok xs => .ok ((if fmod pp.2 2 = 1 then 3 else 2) :: xs)

/-- `public_pair_to_sec(pair, compressed=False)` -/
def publicPairToSecUncompressed (pp : Int × Int) : Except Err Bytes :=
  match toBytes32 pp.1 with
  | .error e => .error e
  | .ok xs =>
    match toBytes32 pp.2 with
    | .error e => .error e
    | .ok ys => .ok (4 :: (xs ++ ys))

/-- `(generator.p().bit_length() + 7) >> 3` -/
def byteCount (p : Nat) : Nat := (Nat.log2 p + 1 + 7) / 8

/-- `sec_to_public_pair(sec, generator)` (strict): the pair, before any curve-membership test of the
uncompressed form.  A coordinate that is not below the field prime is refused (`EncodingError`): it would be a
second encoding of the point with the reduced coordinate. -/
def secToPublicPair (c : CurveParams) (sec : Bytes) : Except Err (Int × Int) :=
  let bc := if c.p = 0 then 0 else byteCount c.p
  let x := fromBytes32 (slice sec 1 (1 + bc))
  let sec0 := sec.take 1
  if sec.length = 1 + bc * 2 then
    if sec0 = [4] then
      let y := fromBytes32 (slice sec (1 + bc) (1 + 2 * bc))
      if x ≥ c.p ∨ y ≥ c.p then .error .encoding else .ok (x, y)
    else .error .encoding
  else if sec.length = 1 + bc then
    if sec0 = [2] ∨ sec0 = [3] then
      if x ≥ c.p then .error .encoding
      else
        match Curve.pointsForX c x with
        | .error e => .error (.curve e)
        | .ok (even, odd) =>
          match (if sec0 ≠ [2] then odd else even) with
          | some q => .ok q
          | none => .error .type          -- unreachable: `points_for_x` returns affine points
    else .error .encoding
  else .error .encoding

/-! ### `Key.__init__` and `BIP32Node.__init__` -/

inductive Kind | bip32 | bip49 | bip84
  deriving DecidableEq, Repr

structure Node where
  /-- the class: `BIP32Node`, `BIP49Node` or `BIP84Node` (subclasses differ in `hwif` and `address` only) -/
  kind : Kind
  chainCode : Bytes
  depth : Nat
  parentFingerprint : Bytes
  childIndex : Nat
  /-- `_secret_exponent` (`None` for a public node) -/
  secretExponent : Option Int
  /-- `_public_pair` -/
  publicPair : Int × Int
  deriving DecidableEq, Repr

/-- the key material handed to the constructor: exactly one of `secret_exponent`, `public_pair` -/
inductive KeyArg
  | priv (se : Int)
  | pub (pp : Pt)
  deriving DecidableEq, Repr

/-- `Key.__init__`: range test on the exponent, `secret_exponent * generator`, `None in pair`, `contains_point` -/
def keyInit (g : Gen) : KeyArg → Except Err (Option Int × (Int × Int))
  | .priv se =>
    if se < 1 ∨ se ≥ g.c.n then .error .invalidSecretExponent
    else
      match g.mul se with
      | .error e => .error (.curve e)
      | .ok none => .error .invalidPublicPair
      | .ok (some (x, y)) =>
        if Curve.containsXY g.c x y then .ok (some se, (x, y)) else .error .invalidPublicPair
  | .pub none => .error .invalidPublicPair
  | .pub (some (x, y)) =>
    if Curve.containsXY g.c x y then .ok (none, (x, y)) else .error .invalidPublicPair

/-- `BIP32Node.__init__(chain_code, depth, parent_fingerprint, child_index, secret_exponent | public_pair)`:
`Key.__init__` first, then the chain-code and fingerprint length tests -/
def mkNode (g : Gen) (kind : Kind) (chainCode : Bytes) (depth : Nat) (fp : Bytes) (childIndex : Nat)
    (key : KeyArg) : Except Err Node :=
  match keyInit g key with
  | .error e => .error e
  | .ok (se, pp) =>
    if chainCode.length ≠ 32 then .error .value
    else if fp.length ≠ 4 then .error .encoding
    else .ok ⟨kind, chainCode, depth, fp, childIndex, se, pp⟩

def seedKey : Bytes := "Bitcoin seed".toUTF8.toList

/-- `BIP32Node.from_master_secret(master_secret)` -/
def fromMasterSecret (g : Gen) (kind : Kind) (seed : Bytes) : Except Err Node :=
  let i64 := Hash.hmacSha512 seedKey seed
  mkNode g kind (i64.drop 32) 0 [0, 0, 0, 0] 0 (.priv (fromBytes32 (i64.take 32)))

/-- `Key.sec(is_compressed=True)` -/
def Node.sec (n : Node) : Except Err Bytes := publicPairToSec n.publicPair

/-- `Key.fingerprint()` = `hash160(sec)[:4]` -/
def Node.fingerprint (n : Node) : Except Err Bytes :=
  match n.sec with
  | .error e => .error e
  | .ok s => .ok ((Hash.hash160 s).take 4)

/-- `BIP32Node.public_copy()` (the constructor runs again on the public pair) -/
def Node.publicCopy (g : Gen) (n : Node) : Except Err Node :=
  mkNode g n.kind n.chainCode n.depth n.parentFingerprint n.childIndex (.pub (some n.publicPair))

/-! ### `pycoin/key/bip32.py` -/

/-- `struct.pack(">L", i)` -/
def packL (i : Int) : Except Err Bytes :=
  if i < 0 ∨ i ≥ 2 ^ 32 then .error .struct else .ok (beBytes i.toNat 4)

/-- `struct.pack(">l", i)` (signed) -/
def packl (i : Int) : Except Err Bytes :=
  if i < -(2 ^ 31) ∨ i ≥ 2 ^ 31 then .error .struct else .ok (beBytes (fmod i (2 ^ 32)).toNat 4)

/-- the `while True:` loop of `subkey_secret_exponent_chain_code_pair`, with fuel -/
def ckdLoop (n : Nat) (se : Int) (cc iBytes : Bytes) : Nat → Bytes → Except Err (Int × Bytes)
  | 0, _ => .error .outOfFuel
  | fuel + 1, data =>
    let i64 := Hash.hmacSha512 cc data
    let iLeft := fromBytes32 (i64.take 32)
    let k := fmod (iLeft + se) n
    if iLeft < n ∧ k ≠ 0 then .ok (k, i64.drop 32)
    else ckdLoop n se cc iBytes fuel (1 :: (i64.drop 32 ++ iBytes))

/-- `subkey_secret_exponent_chain_code_pair(generator, secret_exponent, chain_code, i, is_hardened, public_pair)`
with `public_pair` given (BIP32Node always passes it) -/
def subkeySecretExponentChainCodePair (g : Gen) (fuel : Nat) (se : Int) (cc : Bytes) (i : Int) (hardened : Bool)
    (pp : Int × Int) : Except Err (Int × Bytes) :=
  match packL i with
  | .error e => .error e
  | .ok iBytes =>
    let data : Except Err Bytes :=
      if hardened then
        match toBytes32 se with
        | .error e => .error e
        | .ok sb => .ok (0 :: (sb ++ iBytes))
      else
        match publicPairToSec pp with
        | .error e => .error e
        | .ok sec => .ok (sec ++ iBytes)
    match data with
    | .error e => .error e
    | .ok d => ckdLoop g.c.n se cc iBytes fuel d

/-- `subkey_public_pair_chain_code_pair(generator, public_pair, chain_code, i)` -/
def subkeyPublicPairChainCodePair (g : Gen) (pp : Int × Int) (cc : Bytes) (i : Int) :
    Except Err ((Int × Int) × Bytes) :=
  match packl i with
  | .error e => .error e
  | .ok iBytes =>
    match publicPairToSec pp with
    | .error e => .error e
    | .ok sec =>
      let i64 := Hash.hmacSha512 cc (sec ++ iBytes)
      let e := fmod (fromBytes32 (i64.take 32)) g.c.n
      match g.mul e with
      | .error er => .error (.curve er)
      | .ok p1 =>
        match Curve.mkPoint g.c pp.1 pp.2 with
        | .error er => .error (.curve er)
        | .ok p2 =>
          match Curve.add g.c p1 p2 with
          | .error er => .error (.curve er)
          | .ok none => .error .derivation
          | .ok (some q) => .ok (q, i64.drop 32)

/-! ### `BIP32Node._subkey`, `subkey`, `subkey_for_path` -/

/-- the two branches of `_subkey` that build the child (`key = self.__class__(**d)`), `idx` being the child number
with the hardened bit set and `fp` the parent's fingerprint -/
def subkeyChild (g : Gen) (fuel : Nat) (n : Node) (idx : Int) (hardened : Bool) (fp : Bytes) : Except Err Node :=
  match n.secretExponent with
  | none =>
    if hardened then .error .mismatch
    else
      match subkeyPublicPairChainCodePair g n.publicPair n.chainCode idx with
      | .error e => .error e
      | .ok (q, cc) => mkNode g n.kind cc (n.depth + 1) fp idx.toNat (.pub (some q))
  | some se =>
    match subkeySecretExponentChainCodePair g fuel se n.chainCode idx hardened n.publicPair with
    | .error e => .error e
    | .ok (k, cc) => mkNode g n.kind cc (n.depth + 1) fp idx.toNat (.priv k)

/-- `BIP32Node._subkey(i, is_hardened, as_private)` -/
def subkeyRaw (g : Gen) (fuel : Nat) (n : Node) (i : Int) (hardened asPrivate : Bool) : Except Err Node :=
  if i < 0 then .error .value
  else if i ≥ 0x80000000 then .error .value
  else
    match n.fingerprint with
    | .error e => .error e
    | .ok fp =>
      match subkeyChild g fuel n (if hardened then i + 0x80000000 else i) hardened fp with
      | .error e => .error e
      | .ok key => if asPrivate then .ok key else key.publicCopy g

/-- the key of `_subkey_cache`: `(i, is_hardened, as_private)` -/
abbrev CKey := Int × Bool × Bool

/-- `_subkey_cache` of one node -/
abbrev Cache := List (CKey × Node)

def Cache.get? (c : Cache) (k : CKey) : Option Node := (c.find? (·.1 = k)).map (·.2)

/-- the `lookup` tuple `subkey(i, is_hardened, as_private)` builds (`as_private=None` ↦ the node has a secret) -/
def lookupKey (n : Node) (i : Int) (hardened : Bool) (asPrivate : Option Bool) : CKey :=
  (i, hardened, asPrivate.getD n.secretExponent.isSome)

/-- `BIP32Node.subkey(i, is_hardened, as_private)`: the answer and the cache afterwards (an exception leaves the
cache as it was) -/
def subkey (g : Gen) (fuel : Nat) (n : Node) (cache : Cache) (i : Int) (hardened : Bool) (asPrivate : Option Bool) :
    Except Err Node × Cache :=
  let k := lookupKey n i hardened asPrivate
  match cache.get? k with
  | some v => (.ok v, cache)
  | none =>
    match subkeyRaw g fuel n k.1 k.2.1 k.2.2 with
    | .error e => (.error e, cache)
    | .ok v => (.ok v, (k, v) :: cache)

/-- uncached `subkey`: what `subkey` returns on a node whose cache is empty -/
def subkey0 (g : Gen) (fuel : Nat) (n : Node) (i : Int) (hardened : Bool) (asPrivate : Option Bool) : Except Err Node :=
  subkeyRaw g fuel n i hardened (asPrivate.getD n.secretExponent.isSome)

/-- a run of `subkey` calls on one node object, starting from the cache it holds: the list of answers -/
def subkeyRun (g : Gen) (fuel : Nat) (n : Node) : Cache → List (Int × Bool × Option Bool) → List (Except Err Node)
  | _, [] => []
  | cache, (i, h, p) :: rest =>
    let (r, cache') := subkey g fuel n cache i h p
    r :: subkeyRun g fuel n cache' rest


/-! ### `subkey_for_path`, `HierarchicalKey.subkeys` -/

/-- one path element `v`: `v[-1] in "'pH"`, then `int(v)` -/
def parseStep (v : List Char) : Except Err (Int × Bool) :=
  match v.getLast? with
  | none => .error .index
  | some last =>
    let hardened := Subpaths.hardeningChars.contains last
    match Subpaths.pyInt (if hardened then v.dropLast else v) with
    | none => .error .value
    | some i => .ok (i, hardened)

/-- the `for v in invocations:` loop; each element is parsed when it is reached (so a derivation error of an earlier
element wins over a syntax error of a later one); `subkey` is the uncached one (`C09_cache_transparent`) -/
def pathLoop (g : Gen) (fuel : Nat) : Node → List (List Char) → Except Err Node
  | key, [] => .ok key
  | key, v :: vs =>
    match parseStep v with
    | .error e => .error e
    | .ok (i, hardened) =>
      match subkey0 g fuel key i hardened (some key.secretExponent.isSome) with
      | .error e => .error e
      | .ok key' => pathLoop g fuel key' vs

/-- `BIP32Node.subkey_for_path(path)` -/
def subkeyForPath (g : Gen) (fuel : Nat) (n : Node) (path : List Char) : Except Err Node :=
  let forcePublic := path.drop (path.length - 4) = ".pub".toList
  let path := if forcePublic then path.take (path.length - 4) else path
  let r := if path.isEmpty then .ok n else pathLoop g fuel n (Subpaths.split '/' path)
  match r with
  | .error e => .error e
  | .ok key => if forcePublic ∧ key.secretExponent.isSome then key.publicCopy g else .ok key

def liftS {α} : Except Subpaths.Err α → Except Err α
  | .ok a => .ok a
  | .error .value => .error .value
  | .error .index => .error .index

def mapMExcept {α β} (f : α → Except Err β) : List α → Except Err (List β)
  | [] => .ok []
  | a :: as =>
    match f a with
    | .error e => .error e
    | .ok b =>
      match mapMExcept f as with
      | .error e => .error e
      | .ok bs => .ok (b :: bs)

/-- `list(node.subkeys(path))` (`HierarchicalKey.subkeys`): the range is expanded before the first derivation -/
def subkeys (g : Gen) (fuel : Nat) (n : Node) (pathRange : List Char) : Except Err (List Node) :=
  match Subpaths.subpathsForPathRange pathRange with
  | .error e => liftS (.error e)
  | .ok paths => mapMExcept (subkeyForPath g fuel n) paths

/-! ### the cache along paths: one root object, every node reached from it keeps its own `_subkey_cache`

Every object reachable from a root node is identified by the list of cache keys leading to it (each `_subkey`
call creates a fresh object and stores it under exactly one key of exactly one parent), so the whole object
graph is a map from key paths to node values. -/

abbrev PCache := List (List CKey × Node)

def PCache.get? (c : PCache) (k : List CKey) : Option Node := (c.find? (·.1 = k)).map (·.2)

/-- `subkey_for_path`'s loop on a root object whose descendants hold caches: `at_` is the key path of `key` -/
def pathLoopC (g : Gen) (fuel : Nat) : Node → List CKey → PCache → List (List Char) → Except Err Node × PCache
  | key, _, cache, [] => (.ok key, cache)
  | key, at_, cache, v :: vs =>
    match parseStep v with
    | .error e => (.error e, cache)
    | .ok (i, hardened) =>
      let k : CKey := (i, hardened, key.secretExponent.isSome)
      match cache.get? (at_ ++ [k]) with
      | some key' => pathLoopC g fuel key' (at_ ++ [k]) cache vs
      | none =>
        match subkeyRaw g fuel key i hardened key.secretExponent.isSome with
        | .error e => (.error e, cache)
        | .ok key' => pathLoopC g fuel key' (at_ ++ [k]) ((at_ ++ [k], key') :: cache) vs

/-- `root.subkey_for_path(path)` with the caches of the root and of all its descendants as explicit state -/
def subkeyForPathC (g : Gen) (fuel : Nat) (root : Node) (cache : PCache) (path : List Char) : Except Err Node × PCache :=
  let forcePublic := path.drop (path.length - 4) = ".pub".toList
  let path := if forcePublic then path.take (path.length - 4) else path
  let (r, cache') := if path.isEmpty then (.ok root, cache) else pathLoopC g fuel root [] cache (Subpaths.split '/' path)
  match r with
  | .error e => (.error e, cache')
  | .ok key => (if forcePublic ∧ key.secretExponent.isSome then key.publicCopy g else .ok key, cache')

/-- a run of `subkey_for_path` calls on one root object: the list of answers -/
def pathRun (g : Gen) (fuel : Nat) (root : Node) : PCache → List (List Char) → List (Except Err Node)
  | _, [] => []
  | cache, p :: rest =>
    let (r, cache') := subkeyForPathC g fuel root cache p
    r :: pathRun g fuel root cache' rest

/-! ### a family of objects derived from one root: one `_subkey_cache` per object

Python objects are cells `(node value, cache)`; a cache maps a key to the *object* (cell index) it memoises, so a
child handed out twice is the same object with the same cache.  `public_copy()` builds a fresh object (fresh
cache) — as the code does by calling the constructor.  A history is a list of steps; step `k` names earlier results
by their step number (`refs`; the root is result 0) and its own result becomes result `k`. -/

abbrev Cell := Node × List (CKey × Nat)
abbrev Cells := List Cell

/-- `obj.subkey(i, is_hardened, as_private)` on cell `pid`: the cell of the answer, and the cells afterwards -/
def subkeyCell (g : Gen) (fuel : Nat) (cells : Cells) (pid : Nat) (i : Int) (hardened : Bool) (asPrivate : Option Bool) :
    Except Err Nat × Cells :=
  match cells[pid]? with
  | none => (.error .noObject, cells)
  | some (n, cache) =>
    let k := lookupKey n i hardened asPrivate
    match (cache.find? (·.1 = k)).map (·.2) with
    | some j => (.ok j, cells)
    | none =>
      match subkeyRaw g fuel n k.1 k.2.1 k.2.2 with
      | .error e => (.error e, cells)
      | .ok v => (.ok cells.length, cells.set pid (n, (k, cells.length) :: cache) ++ [(v, [])])

/-- `obj.public_copy()`: a new object with an empty cache -/
def publicCopyCell (g : Gen) (cells : Cells) (pid : Nat) : Except Err Nat × Cells :=
  match cells[pid]? with
  | none => (.error .noObject, cells)
  | some (n, _) =>
    match n.publicCopy g with
    | .error e => (.error e, cells)
    | .ok v => (.ok cells.length, cells ++ [(v, [])])

/-- the loop of `subkey_for_path` over cells -/
def pathLoopCell (g : Gen) (fuel : Nat) : Cells → Nat → List (List Char) → Except Err Nat × Cells
  | cells, pid, [] => (.ok pid, cells)
  | cells, pid, v :: vs =>
    match parseStep v with
    | .error e => (.error e, cells)
    | .ok (i, hardened) =>
      match cells[pid]? with
      | none => (.error .noObject, cells)
      | some (n, _) =>
        match subkeyCell g fuel cells pid i hardened (some n.secretExponent.isSome) with
        | (.error e, cells') => (.error e, cells')
        | (.ok j, cells') => pathLoopCell g fuel cells' j vs

/-- `obj.subkey_for_path(path)` over cells -/
def subkeyForPathCell (g : Gen) (fuel : Nat) (cells : Cells) (pid : Nat) (path : List Char) : Except Err Nat × Cells :=
  let forcePublic := path.drop (path.length - 4) = ".pub".toList
  let path := if forcePublic then path.take (path.length - 4) else path
  let (r, cells') := if path.isEmpty then (.ok pid, cells) else pathLoopCell g fuel cells pid (Subpaths.split '/' path)
  match r with
  | .error e => (.error e, cells')
  | .ok j =>
    match cells'[j]? with
    | none => (.error .noObject, cells')
    | some (n, _) => if forcePublic ∧ n.secretExponent.isSome then publicCopyCell g cells' j else (.ok j, cells')

/-- one step of a history over the family -/
inductive FStep
  | pubcopy (r : Nat)
  | subkey (r : Nat) (i : Int) (hardened : Bool) (asPrivate : Option Bool)
  | path (r : Nat) (text : List Char)
  deriving Repr

structure Fam where
  cells : Cells
  /-- result number ↦ cell (`none`: that step raised) -/
  refs : List (Option Nat)

def Fam.root (n : Node) : Fam := ⟨[(n, [])], [some 0]⟩

def FStep.ref : FStep → Nat
  | .pubcopy r => r | .subkey r _ _ _ => r | .path r _ => r

/-- run one step: the answer (the node value of the resulting object) and the family afterwards -/
def famStep (g : Gen) (fuel : Nat) (F : Fam) (s : FStep) : Except Err Node × Fam :=
  match F.refs[s.ref]? with
  | some (some pid) =>
    let (r, cells') :=
      match s with
      | .pubcopy _ => publicCopyCell g F.cells pid
      | .subkey _ i h p => subkeyCell g fuel F.cells pid i h p
      | .path _ t => subkeyForPathCell g fuel F.cells pid t
    match r with
    | .error e => (.error e, ⟨cells', F.refs ++ [none]⟩)
    | .ok j =>
      match cells'[j]? with
      | some (v, _) => (.ok v, ⟨cells', F.refs ++ [some j]⟩)
      | none => (.error .noObject, ⟨cells', F.refs ++ [none]⟩)
  | _ => (.error .noObject, ⟨F.cells, F.refs ++ [none]⟩)

def famRun (g : Gen) (fuel : Nat) : Fam → List FStep → List (Except Err Node)
  | _, [] => []
  | F, s :: rest =>
    let (a, F') := famStep g fuel F s
    a :: famRun g fuel F' rest

/-- the same history without any cache: every step derives afresh from the node value of the object it names -/
def famStep0 (g : Gen) (fuel : Nat) (vals : List (Option Node)) (s : FStep) : Except Err Node :=
  match vals[s.ref]? with
  | some (some n) =>
    match s with
    | .pubcopy _ => n.publicCopy g
    | .subkey _ i h p => subkey0 g fuel n i h p
    | .path _ t => subkeyForPath g fuel n t
  | _ => .error .noObject

def toOpt {α} : Except Err α → Option α
  | .ok a => some a
  | .error _ => none

def famRun0 (g : Gen) (fuel : Nat) : List (Option Node) → List FStep → List (Except Err Node)
  | _, [] => []
  | vals, s :: rest =>
    let a := famStep0 g fuel vals s
    a :: famRun0 g fuel (vals ++ [toOpt a]) rest

/-! ### serialisation -/

/-- `BIP32Node.serialize(as_private)`: 74 bytes (`ba.extend([depth])` raises `ValueError` above 255) -/
def Node.serialize (n : Node) (asPrivate : Option Bool) : Except Err Bytes :=
  let asPriv := asPrivate.getD n.secretExponent.isSome
  if n.secretExponent.isNone ∧ asPriv then .error .mismatch
  else if n.depth > 255 then .error .value
  else
    match packL n.childIndex with
    | .error e => .error e
    | .ok idx =>
      let head := UInt8.ofNat n.depth :: (n.parentFingerprint ++ idx ++ n.chainCode)
      if asPriv then
        match n.secretExponent with
        | none => .error .mismatch
        | some se =>
          -- `_secret_exponent_bytes`, set by the constructor (`to_bytes_32(secret_exponent)`)
          match toBytes32 se with
          | .error e => .error e
          | .ok sb => .ok (head ++ 0 :: sb)
      else
        match n.sec with
        | .error e => .error e
        | .ok sec => .ok (head ++ sec)

/-- `BIP32Node.deserialize(data)` as coded: no length test of its own; private iff byte 45 is zero -/
def deserialize (g : Gen) (kind : Kind) (data : Bytes) : Except Err Node :=
  if (slice data 5 13).length ≠ 8 then .error .struct
  else
    let fp := slice data 5 9
    let idx := beNat (slice data 9 13)
    let chain := slice data 13 45
    match slice data 4 5 with
    | [d] =>
      if slice data 45 46 = [0] then
        mkNode g kind chain d.toNat fp idx (.priv (fromBytes32 (data.drop 46)))
      else
        match secToPublicPair g.c (data.drop 45) with
        | .error e => .error e
        | .ok pp => mkNode g kind chain d.toNat fp idx (.pub (some pp))
    | _ => .error .type   -- `ord(b"")`: unreachable once bytes 5..13 exist


/-- `BIP32Node.override_network(other)`: `other.keys.bip32_deserialize(b"\0\0\0\0" + self.serialize())` — the
node rebuilt by the other network's plain BIP32 class from the 74 bytes (private form when there is a secret) -/
def Node.overrideNetwork (g : Gen) (n : Node) : Except Err Node :=
  match n.serialize none with
  | .error e => .error e
  | .ok blob => deserialize g .bip32 ([0, 0, 0, 0] ++ blob)

/-- `BIP32Node.__init__` with `secret_exponent` and `public_pair` both optional: exactly one must be given -/
def mkNodeArgs (g : Gen) (kind : Kind) (chainCode : Bytes) (depth : Nat) (fp : Bytes) (childIndex : Nat)
    (se : Option Int) (pp : Option Curve.Pt) : Except Err Node :=
  match se, pp with
  | some k, none => mkNode g kind chainCode depth fp childIndex (.priv k)
  | none, some q => mkNode g kind chainCode depth fp childIndex (.pub q)
  | _, _ => .error .value

/-- the `(i, is_hardened)` pairs `children` walks: `for i in range(start, max_level + start + 1)`, the plain child then
(`include_hardened`) the hardened one -/
def childrenCalls (maxLevel startIndex : Nat) (includeHardened : Bool) : List (Nat × Bool) :=
  (List.range (maxLevel + 1)).flatMap fun d =>
    if includeHardened then [(startIndex + d, false), (startIndex + d, true)] else [(startIndex + d, false)]

/-- `list(node.children(max_level, start_index, include_hardened))` -/
def Node.children (g : Gen) (fuel : Nat) (n : Node) (maxLevel startIndex : Nat) (includeHardened : Bool) :
    Except Err (List Node) :=
  mapMExcept (fun c => subkey0 g fuel n (c.1 : Int) c.2 none) (childrenCalls maxLevel startIndex includeHardened)

/-! ### text form per network (`bitcoinish.py: bipNN_as_string`, `ParseAPI.hparse`) -/

open Pycoin.Addr (Network)

/-- the prefix `bipNN_as_string` prepends (`ui_kwargs.get(...)`: `None` when the network does not define it) -/
def outPrefix (net : Network) : Kind → Bool → Option Bytes
  | .bip32, true => net.outBip32Prv | .bip32, false => net.outBip32Pub
  | .bip49, true => net.outBip49Prv | .bip49, false => net.outBip49Pub
  | .bip84, true => net.outBip84Prv | .bip84, false => net.outBip84Pub

/-- `ParseAPI._bipNN_{prv,pub}_prefix` -/
def parsePrefix (net : Network) : Kind → Bool → Option Bytes
  | .bip32, true => net.parseBip32Prv | .bip32, false => net.parseBip32Pub
  | .bip49, true => net.parseBip49Prv | .bip49, false => net.parseBip49Pub
  | .bip84, true => net.parseBip84Prv | .bip84, false => net.parseBip84Pub

/-- the checksum hash of the closure a node class's `hwif` goes through (`bip32_as_string` / `bip49_as_string` /
`bip84_as_string`: `bitcoinish.py`, replaced in the Groestlcoin symbol files), found by probing each closure -/
def outHash (net : Network) : Kind → Pycoin.Addr.HashKind
  | .bip32 => net.hashBip32
  | .bip49 => net.hashBip49
  | .bip84 => net.hashBip84

/-- `node.hwif(as_private)` = `as_text`: `serialize` first, then `b2a_hashed_base58(prefix + blob)` — on the
Groestlcoin family `b2a_hashed_base58_grs` — i.e. Base58Check under the closure's checksum hash `outHash`;
the text is given by its ASCII bytes. -/
def hwif (net : Network) (n : Node) (asPrivate : Bool) : Except Err Bytes :=
  match n.serialize (some asPrivate) with
  | .error e => .error e
  | .ok blob =>
    match outPrefix net n.kind asPrivate with
    | none => .error .type                      -- `None + blob`
    | some p =>
      match Base58.b2aHashedK (outHash net n.kind) (p ++ blob) with
      | .ok t => .ok t
      | .error _ => .error .encoding            -- unreachable (`Base58.b2aK_ok`)

def isPrefixOf (p d : Bytes) : Bool := d.take p.length == p

/-- `hparse(api, pub_prv, key_type, s)` — text given by its UTF-8 bytes; `none` is Python's `None`;
`api.parse_b58_hashed` is Base58Check under the network's parse-side checksum hash -/
def hparse (g : Gen) (net : Network) (kind : Kind) (prv : Bool) (s : Bytes) : Except Err (Option Node) :=
  match Base58.parseB58HashedK net.hashParse s, parsePrefix net kind prv with
  | some data, some p =>
    if !isPrefixOf p data then .ok none
    else if data.length ≠ 78 then .ok none
    else
      match deserialize g kind data with
      | .ok n => .ok (some n)
      | .error e => if e.caughtByHparse then .ok none else .error e
  | _, _ => .ok none

/-- `ParseAPI.bip32(s)` / `bip49` / `bip84`: `self.bipNN_prv(s) or self.bipNN_pub(s)` -/
def parseBip (g : Gen) (net : Network) (kind : Kind) (s : Bytes) : Except Err (Option Node) :=
  match hparse g net kind true s with
  | .error e => .error e
  | .ok (some n) => .ok (some n)
  | .ok none => hparse g net kind false s

end Pycoin.BIP32
