/-!
C15 — model of `pycoin/blockchain/ChainFinder.py` (import-free).

Hashes are natural numbers.  A Python `dict` is an association list with distinct keys in insertion
order (`dget`/`dset`/`ddel`); a Python `set` is a duplicate-free list in insertion order (`sadd`/`sremove`/
`supdate`) whose iteration order is insertion order or its reverse (`siter`, a parameter: CPython leaves
it unspecified) and whose `pop()` order is scripted by a ranking (`pick`): `pop()` returns the first hash
of the ranking that is in the set, else the oldest member.  Every sequence of pops that a real `set` can
produce during one `meld_new_hashes` call is produced by some ranking.

Exceptions: `KeyError`, `IndexError`; `loop` stands for a walk that Python would never finish (a cycle
in `parent_lookup`), `alias` for the one aliasing case the model declines to render (a path whose top is
its own bottom; it needs a cycle or a hash that was never registered).
-/
namespace Pycoin.Chain

inductive Err | keyError | indexError | loop | alias
  deriving DecidableEq, Repr

def Err.tag : Err → String
  | .keyError => "KeyError" | .indexError => "IndexError" | .loop => "Loop" | .alias => "Alias"

/-! ### dict and set -/

abbrev Dict (α : Type) := List (Nat × α)

def dget {α} : Dict α → Nat → Option α
  | [], _ => none
  | (k', v) :: r, k => if k' = k then some v else dget r k

/-- `d[k] = v`: an existing key keeps its position -/
def dset {α} : Dict α → Nat → α → Dict α
  | [], k, v => [(k, v)]
  | (k', v') :: r, k, v => if k' = k then (k, v) :: r else (k', v') :: dset r k v

/-- `del d[k]` for a key that may be absent (callers check presence where Python raises); keys are distinct,
so dropping every entry with that key drops the one there is -/
def ddel {α} (d : Dict α) (k : Nat) : Dict α := d.filter (fun e => e.1 ≠ k)

def dhas {α} (d : Dict α) (k : Nat) : Bool := (dget d k).isSome

abbrev PSet := List Nat

def sadd (s : PSet) (x : Nat) : PSet := if x ∈ s then s else s ++ [x]
/-- `s.remove(x)` / `s.discard(x)` (members are distinct) -/
def sremove (s : PSet) (x : Nat) : PSet := s.filter (· ≠ x)
/-- iteration order of a set: insertion order, or its reverse -/
def siter (rev : Bool) (s : PSet) : List Nat := if rev then s.reverse else s
/-- `s.update(o)`: members of `o` are inserted in `o`'s iteration order -/
def supdate (rev : Bool) (s o : PSet) : PSet := (siter rev o).foldl sadd s

/-- scripted `set.pop()`: the first hash of the ranking that is a member, else the oldest member -/
def pick (rank : List Nat) (s : PSet) : Option Nat :=
  match rank.find? (fun r => r ∈ s) with
  | some r => some r
  | none => s.head?

/-! ### ChainFinder -/

structure CF where
  /-- `parent_lookup` -/
  parent : Dict Nat
  /-- `descendents_by_top`: missing parent ↦ bottoms of the paths that wait on it -/
  dbt : Dict PSet
  /-- `trees_from_bottom`: leaf ↦ the path from it up to the first hash without a registered parent -/
  trees : Dict (List Nat)
  deriving Repr, DecidableEq

def CF.empty : CF := ⟨[], [], []⟩

/-- the loop of `load_nodes`: register unseen hashes, collect them in `new_hashes` -/
def register : Dict Nat → PSet → List (Nat × Nat) → Dict Nat × PSet
  | pl, new, [] => (pl, new)
  | pl, new, (h, p) :: r =>
    if dhas pl h then register pl new r else register (dset pl h p) (sadd new h) r

/-- the inner `while 1` of `meld_new_hashes`, entered with `path` ending in `h`.  `pending` is `new_hashes`
(after the pop).  Fuel: Python has no bound here; `parent.length + 1` steps suffice without cycles. -/
def walkUp (pending : PSet) : Nat → CF → List Nat → Nat → Except Err (List Nat × CF)
  | 0, _, _, _ => .error .loop
  | fuel + 1, cf, path, h =>
    match dget cf.parent h with
    | none => .ok (path, cf)
    | some p =>
      match dget cf.trees p with
      | some (b :: pre) =>
        -- `del trees[p]; path.extend(preceding_path); dbt[preceding_path[-1]].remove(preceding_path[0])`
        let top := (b :: pre).getLast (by simp)
        match dget cf.dbt top with
        | none => .error .keyError
        | some s =>
          if b ∈ s then
            .ok (path ++ (b :: pre), { cf with trees := ddel cf.trees p, dbt := dset cf.dbt top (sremove s b) })
          else .error .keyError
      | _ =>
        if p ∈ pending then .ok (path ++ [p], cf)
        else walkUp pending fuel cf (path ++ [p]) p

/-- `for descendent in bottom_descendents: prior_path.extend(path[1:]); del trees[path[0]] if present` -/
def extendWaiting (bottom : Nat) (ext : List Nat) : List Nat → Dict (List Nat) → Except Err (Dict (List Nat))
  | [], trees => .ok trees
  | d :: ds, trees =>
    match dget trees d with
    | none => .error .keyError
    | some prior => extendWaiting bottom ext ds (ddel (dset trees d (prior ++ ext)) bottom)

/-- one turn of the outer `while` of `meld_new_hashes`, after `h = new_hashes.pop()` -/
def meldOne (rev : Bool) (pending : PSet) (cf : CF) (h : Nat) : Except Err CF := do
  let (path, cf) ← walkUp pending (cf.parent.length + 1) cf [h] h
  let trees := dset cf.trees h path
  let top := path.getLastD h
  if top = h then .error .alias else
  -- `top_descendents = dbt.setdefault(top_h, set())`
  let dbt := if dhas cf.dbt top then cf.dbt else dset cf.dbt top []
  let topSet := (dget dbt top).getD []   -- present by the line above
  match dget dbt h with
  | some (d :: ds) =>
    let trees ← extendWaiting h (path.drop 1) (siter rev (d :: ds)) trees
    let dbt := ddel dbt h
    .ok { cf with trees := trees, dbt := dset dbt top (supdate rev topSet (d :: ds)) }
  | _ => .ok { cf with trees := trees, dbt := dset dbt top (sadd topSet h) }

/-- the outer `while len(new_hashes) > 0`; each turn pops one hash (nothing else leaves the set) -/
def meld (rev : Bool) (rank : List Nat) : Nat → PSet → CF → Except Err CF
  | 0, _, cf => .ok cf
  | n + 1, pending, cf =>
    match pick rank pending with
    | none => .ok cf
    | some h => do
      let cf ← meldOne rev (sremove pending h) cf h
      meld rev rank n (sremove pending h) cf

/-- `load_nodes(nodes)` -/
def CF.loadNodes (rev : Bool) (rank : List Nat) (cf : CF) (nodes : List (Nat × Nat)) : Except Err CF :=
  let (pl, new) := register cf.parent [] nodes
  meld rev rank new.length new { cf with parent := pl }

/-- `all_chains_ending_at(h)` -/
def CF.allChainsEndingAt (rev : Bool) (cf : CF) (h : Nat) : Except Err (List (List Nat)) :=
  match dget cf.dbt h with
  | none => .ok []
  | some s => (siter rev s).mapM fun b => match dget cf.trees b with
    | none => .error .keyError
    | some t => .ok t

/-- `missing_parents()` (as a list of keys) -/
def CF.missingParents (cf : CF) : List Nat := cf.dbt.map (·.1)

/-- the `while h1 is not None` walk of `maximum_path` -/
def walkParents (pl : Dict Nat) : Nat → Nat → Except Err (List Nat)
  | 0, _ => .error .loop
  | fuel + 1, h =>
    match dget pl h with
    | none => .ok [h]
    | some p => do let r ← walkParents pl fuel p; .ok (h :: r)

/-- `maximum_path(h)` (the `cache` argument is written, never read) -/
def CF.maximumPath (cf : CF) (h : Nat) : Except Err (List Nat) :=
  match dget cf.trees h with
  | some (b :: t) => .ok (b :: t)
  | _ => walkParents cf.parent (cf.parent.length + 1) h

/-- the aligned scan of `find_ancestral_path`: first position where the two equally long tails agree -/
def scanEq : List Nat → List Nat → Option Nat
  | a :: as, b :: bs => if a = b then some 0 else (scanEq as bs).map (· + 1)
  | _, _ => none

/-- `find_ancestral_path(h1, h2)` -/
def CF.findAncestralPath (cf : CF) (h1 h2 : Nat) : Except Err (List Nat × List Nat) := do
  let p1 ← cf.maximumPath h1
  let p2 ← cf.maximumPath h2
  if p1.getLast? ≠ p2.getLast? then .ok ([], []) else
  let shorter := min p1.length p2.length
  let i1 := p1.length - shorter
  let i2 := p2.length - shorter
  match scanEq (p1.drop i1) (p2.drop i2) with
  | none => .error .indexError
  | some k => .ok (p1.take (i1 + k + 1), p2.take (i2 + k + 1))

end Pycoin.Chain
