import Pycoin.Model.Sec
import Pycoin.Model.Base58
import Pycoin.Model.Base58Hash
import Pycoin.Model.NetworkDef
/-!
C10 — model of `pycoin/key/Key.py`: `Key.__init__` (range check on the secret exponent, on-curve check on the
public pair), `Key.from_sec`, `Key.sec`, `Key.hash160`, `Key.address`
(`AddressAPI.for_p2pkh`: `address.b2a(address_prefix + h160)`, `b2a` = Base58Check under the network's checksum hash
`Network.hashAddr`: double SHA-256, or Groestl on the Groestlcoin family).

The generator of the key class is the parameter `c` (every network of `Gen/Networks.lean` uses secp256k1:
`Props/C10.lean`, `C10_network_generator`); `bf` is the blinding factor the generator object drew at import.
A `str` is its UTF-8 byte string, as in `Model/Base58.lean`.
-/
namespace Pycoin.KeyCtor
open Pycoin.Sec
open Pycoin.Curve (CurveParams Pt)
open Pycoin.Addr (Network)

structure Key where
  /-- `_secret_exponent` (`none` = `None`) -/
  se : Option Int
  /-- `_public_pair` -/
  pub : Int × Int
  /-- `_is_compressed` -/
  compressed : Bool
  deriving DecidableEq, Repr

/-- `Key(secret_exponent=d, is_compressed=comp)`, the product `secret_exponent * generator` being computed by `mul` -/
def keyFromSecretWith (c : CurveParams) (mul : Int → Except Curve.Err Pt) (d : Int) (comp : Bool) : Except Sec.Err Key :=
  if d < 1 ∨ d ≥ c.n then .error .invalidSecretExponent
  else
    match mul d with                                  -- `self._secret_exponent * self._generator`
    | .error e => .error (.curve e)
    | .ok none => .error .invalidPublicPair           -- `None in self._public_pair`
    | .ok (some (x, y)) =>
      if Curve.containsXY c x y then .ok ⟨some d, (x, y), comp⟩ else .error .invalidPublicPair

/-- `Key(secret_exponent=d, is_compressed=comp)` with `Generator.__mul__` (blinding factor `bf`) -/
def keyFromSecret (c : CurveParams) (bf : Int) (d : Int) (comp : Bool) : Except Sec.Err Key :=
  keyFromSecretWith c (Curve.mulG c bf) d comp

/-- `Key(public_pair=P, is_compressed=comp)`; `P = none` is the pair `(None, None)` -/
def keyFromPair (c : CurveParams) (P : Pt) (comp : Bool) : Except Sec.Err Key :=
  match P with
  | none => .error .invalidPublicPair
  | some (x, y) => if Curve.containsXY c x y then .ok ⟨none, (x, y), comp⟩ else .error .invalidPublicPair

/-- `Key.from_sec(sec)` (= `network.keys.public(sec)` for a `bytes` argument) -/
def keyFromSec (c : CurveParams) (sec : Bytes) : Except Sec.Err Key :=
  match secToPublicPair c sec true with
  | .error e => .error e
  | .ok (x, y) => keyFromPair c (some (x, y)) (isSecCompressed sec)

/-- `key.sec(is_compressed)`; `none` = the flag the key was created with -/
def Key.sec (k : Key) (isCompressed : Option Bool) : Except Sec.Err Bytes :=
  publicPairToSec k.pub.1 k.pub.2 (isCompressed.getD k.compressed)

/-- `key.hash160(is_compressed)` -/
def Key.hash160 (k : Key) (isCompressed : Option Bool) : Except Sec.Err Bytes :=
  (k.sec (some (isCompressed.getD k.compressed))).map Hash.hash160

/-- a Base58 failure cannot happen on bytes (`Props/C11.lean`); kept as an error, not defaulted -/
def liftB58 : Except Base58.Err Bytes → Except Sec.Err Bytes
  | .ok b => .ok b
  | .error _ => .error .encodingError

/-- `key.address(is_compressed)`: `network.address.for_p2pkh(hash160)`; `.ok none` is Python's `None`
(network without an address prefix) -/
def Key.address (net : Network) (k : Key) (isCompressed : Option Bool) : Except Sec.Err (Option Bytes) :=
  match k.hash160 isCompressed with
  | .error e => .error e
  | .ok h =>
    match net.addrP2pkh with
    | none => .ok none
    | some pfx => (liftB58 (Base58.b2aHashedK net.hashAddr (pfx ++ h))).map some

end Pycoin.KeyCtor
