import Pycoin.Py.Bytes
import Pycoin.Proofs.Bytes
