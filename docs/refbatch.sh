#!/bin/bash
# refbatch.sh <tester-clone-name> <pid>...: confirm and keep the refactorings an agent left in /tmp/mut/<pid>r/out/<i>/ as
# refactors/<pid>-r<i>, running the quick check in the clone /work/<tester>/verif
t=$1; shift
for pid in "$@"; do
  for d in /tmp/mut/${pid}r/out/*/; do
    i=$(basename $d)
    [ -f $d/patch.diff ] || continue
    KEEPSEED_VERIF=/work/$t/verif /venv/bin/python /verif/docs/keeprefactor.py $d ${pid}-r${i} $pid 2>&1 | tail -3 | sed "s/^/[$pid-r$i] /"
  done
done
