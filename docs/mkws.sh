#!/bin/bash
# mkws.sh <name>: private workspace for a builder: clone of /verif (+ build cache) and a worktree of /repo
set -e
n=$1
mkdir -p /work/$n
git clone -q /verif /work/$n/verif
cp -r /verif/lean/.lake /work/$n/verif/lean/.lake 2>/dev/null || true
git -C /repo worktree add -q -b ws-$n /work/$n/repo HEAD
echo "workspace /work/$n ready"
