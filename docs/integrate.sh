#!/bin/bash
# integrate.sh <name>: merge the builder clone /work/<name>/verif into /verif (generated/evidence conflicts resolved to ours)
n=$1
cd /verif
git -C /work/$n/verif status --short | grep -v '^??' | head -5
git fetch -q /work/$n/verif main || exit 1
git merge --no-edit -q FETCH_HEAD 2>&1 | tail -5
# conflicts: generated files and evidence keep ours / get removed
for f in $(git diff --name-only --diff-filter=U); do
  case $f in
    lean/Pycoin/Driver/All.lean) git rm -q --cached $f 2>/dev/null; rm -f $f;;
    evidence/*|MANIFEST.json) git checkout --ours -- $f && git add $f;;
    *) echo "CONFLICT needs hand: $f";;
  esac
done
git ls-files lean/Pycoin/Driver/All.lean | grep -q . && git rm -q --cached lean/Pycoin/Driver/All.lean
if git diff --name-only --diff-filter=U | grep -q .; then echo "unresolved conflicts"; exit 1; fi
git commit -qm "merge builder $n" 2>/dev/null
git log --oneline | head -3
