#!/bin/bash
# runseed.sh <dir-with-patch.diff> <pid> [tier]: apply a seeded change to /repo, run the check, undo.
d=$1; pid=$2; tier=${3:-quick}
cd /repo && git apply $d/patch.diff || { echo "patch does not apply"; exit 3; }
cd /verif && timeout 3000 ./check $pid --tier $tier 2>&1 | tail -4
rc=$?
git -C /repo checkout -- . 
rm -f /verif/replays/*.json
