#!/usr/bin/env python3
"""reseed.py [-j N] [name-prefix …]: re-run the quick check of every kept seeded change (seeded/<name>/patch.diff applied to a
scratch worktree of /repo, never to /repo itself) against the CURRENT checks, N at a time, each stream in its own clone of
/verif under /work/rs<k> (so /verif stays usable), and rewrite meta.json `check_quick`.  The first recorded outcome is kept as
`check_quick_first` when it was a miss, so DESIGN.md can say which changes needed the checks to be strengthened."""
import glob, json, os, re, subprocess, sys, threading, queue, shutil

V = "/verif"
args = sys.argv[1:]
N = 4
KIND, WANT = "seeded", 1          # a seeded change is expected to be reported (exit 1)
if args[:1] == ["--refactors"]:   # a behaviour-preserving refactoring is expected to leave the check silent (exit 0)
    KIND, WANT = "refactors", 0
    args = args[1:]
if args[:1] == ["-j"]:
    N = int(args[1]); args = args[2:]
names = sorted(os.path.basename(os.path.dirname(p)) for p in glob.glob(V + "/%s/*/patch.diff" % KIND))
if args:
    names = [n for n in names if any(n.startswith(a) for a in args)]

def sh(cmd, cwd=None, env=None, timeout=3600):
    p = subprocess.run(cmd, shell=True, cwd=cwd, capture_output=True, text=True, env=env, timeout=timeout)
    return p.returncode, p.stdout + p.stderr

def prepare(k):
    d = "/work/rs%d" % k
    if not os.path.isdir(d + "/verif"):
        os.makedirs(d, exist_ok=True)
        sh("git clone -q %s %s/verif" % (V, d))
        sh("cp -r %s/lean/.lake %s/verif/lean/.lake" % (V, d))
    else:
        sh("git checkout -q -- . && git pull -q %s main" % V, cwd=d + "/verif")
    # bring the clone's build up to date once (no source change: cheap)
    rc, out = sh("./check --setup", cwd=d + "/verif", timeout=7200)
    if rc != 0:
        print("setup failed in", d, out[-500:]); sys.exit(2)
    return d + "/verif"

q = queue.Queue()
for n in names:
    q.put(n)
lock = threading.Lock()
results = {}

def worker(k):
    C = prepare(k)
    while True:
        try:
            name = q.get_nowait()
        except queue.Empty:
            return
        mp = "%s/%s/%s/meta.json" % (V, KIND, name)
        meta = json.load(open(mp))
        pid = meta["property"]
        wt = "/tmp/reseed_%s" % name
        sh("git -C /repo worktree remove --force %s" % wt)
        rc, out = sh("git -C /repo worktree add -q --detach %s HEAD" % wt)
        rc, out = sh("git apply %s/%s/%s/patch.diff || (git apply --3way %s/%s/%s/patch.diff && git reset -q)" % (V, KIND, name, V, KIND, name), cwd=wt)
        if rc != 0:
            with lock:
                print("%-10s PATCH DOES NOT APPLY" % name); results[name] = "noapply"
            sh("git -C /repo worktree remove --force %s" % wt)
            continue
        try:
            rc, o = sh("./check %s --tier quick" % pid, cwd=C, timeout=3000, env=dict(os.environ, PYCOIN_REPO=wt))
        finally:
            sh("git -C /repo worktree remove --force %s" % wt)
            sh("git checkout -- lean/Pycoin/Gen evidence", cwd=C)
        lines = [l for l in o.split("\n") if l.startswith("VIOLATION")]
        replays = []
        for l in lines[:3]:
            m = re.search(r"replay=(\S+)", l)
            if m and os.path.exists(C + "/" + m.group(1)):
                r = json.load(open(C + "/" + m.group(1)))
                replays.append({"what": r.get("what"), "input": str(r.get("input"))[:300], "kind": r.get("kind")})
        sh("rm -f %s/replays/*.json" % C)
        new = {"exit": rc, "violation_lines": lines[:5], "replays": replays, "summary": o.strip().split("\n")[-1][:300]}
        old = meta.get("check_quick")
        if old and old.get("exit") != WANT and "check_quick_first" not in meta:
            meta["check_quick_first"] = old
        meta["check_quick"] = new
        json.dump(meta, open(mp, "w"), indent=1)
        with lock:
            results[name] = rc
            print("%-10s %s exit %d (%d violation lines)%s" % (name, pid, rc, len(lines), "" if rc == WANT else "   <<<<<< UNEXPECTED"), flush=True)

ts = [threading.Thread(target=worker, args=(k,)) for k in range(N)]
for t in ts: t.start()
for t in ts: t.join()
bad = [n for n, r in results.items() if r != WANT]
print("%d %s re-run, %d with an unexpected outcome: %s" % (len(results), KIND, len(bad), " ".join(sorted(bad))))
