#!/bin/bash
# seedbatch.sh <tester-clone-name> <round-letter> <pid>...: confirm and keep the changes an agent left in /tmp/mut/<pid><round>/out/<i>/,
# running the property's quick check in the clone /work/<tester>/verif so that /verif stays free
t=$1; r=$2; shift 2
for pid in "$@"; do
  for d in /tmp/mut/${pid}${r}/out/*/; do
    i=$(basename $d)
    [ -f $d/patch.diff ] || continue
    KEEPSEED_VERIF=/work/$t/verif /venv/bin/python /verif/docs/keepseed.py $d ${pid}-${r}${i} $pid 2>&1 | tail -4 | sed "s/^/[$pid-$r$i] /"
  done
done
