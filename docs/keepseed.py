#!/usr/bin/env python3
"""keepseed.py <srcdir> <seed-name> <pid>: confirm a seeded change independently (scratch worktree: demo passes clean, fails
patched, suite unchanged), then keep it as /verif/seeded/<seed-name>/ and record whether ./check <pid> catches it."""
import json, os, shutil, subprocess, sys, re, signal
signal.signal(signal.SIGTERM, lambda *a: sys.exit(143))
src, name, pid = sys.argv[1], sys.argv[2], sys.argv[3]
skip_check = len(sys.argv) > 4 and sys.argv[4] == "--nocheck"
wt = "/tmp/seedcheck_" + name
CHK = os.environ.get("KEEPSEED_VERIF", "/verif")   # where the check runs (a clone keeps /verif free for other work)
def sh(cmd, cwd=None, env=None, timeout=1800):
    p = subprocess.run(cmd, shell=True, cwd=cwd, capture_output=True, text=True, env=env, timeout=timeout)
    return p.returncode, (p.stdout + p.stderr)
sh("git -C /repo worktree remove --force %s" % wt)
rc, out = sh("git -C /repo worktree add -q --detach %s HEAD" % wt)
assert rc == 0, out
env = dict(os.environ, PYTHONPATH=wt, PYTHONDONTWRITEBYTECODE="1")
ran = []
try:
    demo = os.path.abspath(os.path.join(src, "demo.py"))
    rc_clean, o1 = sh("/venv/bin/python %s" % demo, cwd=wt, env=env)
    ran.append("clean tree (HEAD of /repo incl. fix commits): demo exit %d" % rc_clean)
    rc, o = sh("git apply %s" % os.path.abspath(os.path.join(src, "patch.diff")), cwd=wt)
    if rc != 0:
        print("PATCH DOES NOT APPLY", o); sys.exit(3)
    rc_pat, o2 = sh("/venv/bin/python %s" % demo, cwd=wt, env=env)
    ran.append("patched tree: demo exit %d: %s" % (rc_pat, o2.strip().split("\n")[-1][:200] if o2.strip() else ""))
    rc, o3 = sh("/venv/bin/python -m pytest -q -p no:cacheprovider --timeout=900 tests/ 2>&1 | tail -1", cwd=wt, env=env)
    ran.append("patched tree: suite: " + o3.strip())
    ok = rc_clean == 0 and rc_pat != 0 and re.search(r"4 failed, 1822 passed", o3)
finally:
    if skip_check or not ok:
        sh("git -C /repo worktree remove --force %s" % wt)
print("\n".join(ran))
if not ok:
    print("NOT KEPT"); sys.exit(1)
dst = "/verif/seeded/" + name
os.makedirs(dst, exist_ok=True)
shutil.copy(os.path.join(src, "patch.diff"), dst)
shutil.copy(os.path.join(src, "demo.py"), dst)
meta = json.load(open(os.path.join(src, "meta.json")))
meta["property"] = pid
meta["confirmed"] = ran
if not skip_check:
    # the patched scratch worktree stands in for /repo (PYCOIN_REPO), so /repo itself is never touched
    try:
        rc, o = sh("./check %s --tier quick" % pid, cwd=CHK, timeout=3000, env=dict(os.environ, PYCOIN_REPO=wt))
    finally:
        sh("git -C /repo worktree remove --force %s" % wt)
        sh("git checkout -- lean/Pycoin/Gen evidence/%s.json" % pid, cwd=CHK)
    lines = [l for l in o.split("\n") if l.startswith("VIOLATION")]
    replays = []
    for l in lines[:3]:
        m = re.search(r"replay=(\S+)", l)
        if m and os.path.exists(CHK + "/" + m.group(1)):
            r = json.load(open(CHK + "/" + m.group(1)))
            replays.append({"what": r.get("what"), "input": str(r.get("input"))[:300], "kind": r.get("kind")})
    sh("rm -f %s/replays/*.json" % CHK)
    meta["check_quick"] = {"exit": rc, "violation_lines": lines[:5], "replays": replays, "summary": o.strip().split("\n")[-1][:300]}
    print("check exit", rc, len(lines), "violation lines")
json.dump(meta, open(os.path.join(dst, "meta.json"), "w"), indent=1)
print("KEPT", dst)
