#!/usr/bin/env python3
"""covreport.py [-v]: merge evidence/*.json `anchored_lines` into one view: for every anchored file, the lines no
check executed (the blind spots of the correspondence tie).  -v prints the source text of the missed lines."""
import json, glob, sys
from pathlib import Path
V = Path(__file__).resolve().parent.parent
def parse(r):
    out=set()
    for part in r.split(","):
        if not part: continue
        a,_,b=part.partition("-"); out.update(range(int(a),int(b or a)+1))
    return out
missed={}; execd={}; anchored=set()
for f in sorted(glob.glob(str(V/"evidence/*.json"))):
    c=json.load(open(f))["coverage"].get("anchored_lines")
    if not c: continue
    for fn,v in list(c["files"].items())+list(c.get("other_files",{}).items()):
        m=parse(v["missed"])
        missed[fn]=missed[fn]&m if fn in missed else m
        execd[fn]=v["executable"]
        if fn in c["files"]: anchored.add(fn)
missed={f:m for f,m in missed.items() if f in anchored}; execd={f:n for f,n in execd.items() if f in anchored}
tot=sum(execd.values()); mis=sum(len(m) for m in missed.values())
print("anchored files: %d, executable lines: %d, executed by at least one check: %d (%.1f%%)"%(len(execd),tot,tot-mis,100.0*(tot-mis)/max(tot,1)))
for fn in sorted(missed, key=lambda f:-len(missed[f])):
    if not missed[fn]: continue
    print("%-55s %4d/%4d missed"%(fn,len(missed[fn]),execd[fn]))
    if "-v" in sys.argv:
        src=(Path("/repo")/fn).read_text().split("\n")
        for n in sorted(missed[fn]): print("     %4d  %s"%(n,src[n-1][:110]))
