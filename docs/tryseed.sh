#!/bin/bash
# tryseed.sh <seed-dir-name> <pid> [verif-dir]: run ./check <pid> (quick) of verif-dir (default /verif) against a scratch worktree of /repo
# with seeded/<name>/patch.diff applied; /repo itself is never touched.  Prints the verdict lines.
name=$1; pid=$2; V=${3:-/verif}
wt=/tmp/tryseed_$name
git -C /repo worktree remove --force $wt 2>/dev/null
git -C /repo worktree add -q --detach $wt HEAD || exit 3
( cd $wt && ( git apply /verif/seeded/$name/patch.diff || ( git apply --3way /verif/seeded/$name/patch.diff && git reset -q ) ) ) || { echo "patch does not apply"; git -C /repo worktree remove --force $wt; exit 3; }
( cd $V && PYCOIN_REPO=$wt timeout 3000 ./check $pid --tier quick 2>&1 | grep -v '^KNOWN-FINDING' | tail -${TAIL:-4} )
for f in $V/replays/*.json; do [ -f "$f" ] && python3 -c "
import json,sys; r=json.load(open('$f')); print('  replay:', str(r.get('what'))[:110], '|', str(r.get('input'))[:90])"; done 2>/dev/null | head -5
rm -f $V/replays/*.json
( cd $V && git checkout -- lean/Pycoin/Gen evidence/$pid.json 2>/dev/null )
git -C /repo worktree remove --force $wt
