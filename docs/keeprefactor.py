#!/usr/bin/env python3
"""keeprefactor.py <srcdir> <name> <pid>: confirm a behaviour-preserving refactoring (scratch worktree: suite unchanged),
then run ./check <pid> against it: the expected outcome is exit 0 (no alarm). Kept under /verif/refactors/<name>/."""
import json, os, shutil, subprocess, sys, re, signal
signal.signal(signal.SIGTERM, lambda *a: sys.exit(143))
src, name, pid = sys.argv[1], sys.argv[2], sys.argv[3]
wt = "/tmp/refcheck_" + name
CHK = os.environ.get("KEEPSEED_VERIF", "/verif")   # where the check runs (a clone keeps /verif free)
def sh(cmd, cwd=None, env=None, timeout=3000):
    p = subprocess.run(cmd, shell=True, cwd=cwd, capture_output=True, text=True, env=env, timeout=timeout)
    return p.returncode, (p.stdout + p.stderr)
sh("git -C /repo worktree remove --force %s" % wt)
rc, out = sh("git -C /repo worktree add -q --detach %s HEAD" % wt); assert rc == 0, out
env = dict(os.environ, PYTHONPATH=wt, PYTHONDONTWRITEBYTECODE="1")
try:
    rc, o = sh("git apply %s" % os.path.abspath(os.path.join(src, "patch.diff")), cwd=wt)
    if rc != 0:
        print("PATCH DOES NOT APPLY", o); sys.exit(3)
    rc, o3 = sh("/venv/bin/python -m pytest -q -p no:cacheprovider --timeout=900 tests/ 2>&1 | tail -1", cwd=wt, env=env)
    suite_ok = bool(re.search(r"4 failed, 1822 passed", o3))
    print("suite:", o3.strip())
    eq = os.path.abspath(os.path.join(src, "equiv.py"))
    equiv_ok = None
    if os.path.exists(eq):
        rce, oe = sh("/venv/bin/python %s" % eq, cwd=wt, env=env, timeout=1500)
        equiv_ok = rce == 0
        print("equiv.py exit", rce, oe.strip().split("\n")[-1][:200] if oe.strip() else "")
    if not suite_ok or equiv_ok is False:
        print("NOT KEPT (suite changed or the author's own equivalence test fails)")
        sys.exit(1)
    rc, o = sh("./check %s --tier quick" % pid, cwd=CHK, env=dict(os.environ, PYCOIN_REPO=wt))
finally:
    sh("git -C /repo worktree remove --force %s" % wt)
    sh("git checkout -- lean/Pycoin/Gen evidence/%s.json" % pid, cwd=CHK)
lines = [l for l in o.split("\n") if l.startswith("VIOLATION")]
replays = []
for l in lines[:3]:
    m = re.search(r"replay=(\S+)", l)
    if m and os.path.exists(CHK + "/" + m.group(1)):
        r = json.load(open(CHK + "/" + m.group(1)))
        replays.append({"what": r.get("what"), "input": str(r.get("input"))[:400], "kind": r.get("kind"),
                        "expected": str(r.get("expected"))[:200], "observed": str(r.get("observed"))[:200]})
sh("rm -f %s/replays/*.json" % CHK)
dst = "/verif/refactors/" + name
os.makedirs(dst, exist_ok=True)
shutil.copy(os.path.join(src, "patch.diff"), dst)
meta = json.load(open(os.path.join(src, "meta.json")))
meta.update({"property": pid, "suite_unchanged": suite_ok, "equiv_test_passed": equiv_ok,
             "check_quick": {"exit": rc, "violation_lines": lines[:5], "replays": replays, "summary": o.strip().split("\n")[-1][:300]}})
json.dump(meta, open(os.path.join(dst, "meta.json"), "w"), indent=1)
print("check exit", rc, len(lines), "violation lines", "" if rc == 0 else json.dumps(replays)[:600])
