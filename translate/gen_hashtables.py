"""Gen/HashTables.lean: the tables of pycoin/contrib/ripemd160.py (ML MR RL RR KL KR, initial state),
the integer literals of pycoin/bloomfilter.py:murmur3 in source order (named by role), and the Bloom filter
constants (hash-seed multiplier, size limit, MASK_ARRAY).  Tables are read by importing the module; literals that
live inside function bodies are read from the AST."""
import ast
import inspect


def _ints(node):
    """integer literals below `node`, in source order"""
    lits = []
    for c in ast.walk(node):
        if isinstance(c, ast.Constant) and isinstance(c.value, int) and not isinstance(c.value, bool):
            lits.append((c.lineno, c.col_offset, c.value))
    lits.sort()
    return [v for _, _, v in lits]


def _func(tree, name):
    for n in ast.walk(tree):
        if isinstance(n, ast.FunctionDef) and n.name == name:
            return n
    return None


def _int_list(xs):
    """a Python list rendered as `List Int`; anything that is not an int list becomes []"""
    try:
        xs = list(xs)
        if not all(isinstance(x, int) and not isinstance(x, bool) for x in xs):
            return "[]"
        return "[" + ", ".join(str(x) if x >= 0 else "(%d)" % x for x in xs) + "]"
    except TypeError:
        return "[]"


def _int(x):
    return str(x) if x >= 0 else "(%d)" % x


# role of every integer literal of murmur3's body, in source order; None = control literal (range bounds, offsets
# i+1 / roundedEnd+2, tail-length tests) that the model renders structurally
MURMUR_ROLES = [
    "c1", "c2", "roundMask", None, None,
    "b0Mask", None, "b1Mask", "b1Shift", None, "b2Mask", "b2Shift", None, "b3Shift",
    "kRotL", "kRotMask", "kRotR", "hRotL", "hRotMask", "hRotR", "hMul", "hAdd",
    None, "valMask", None,
    None, "t2Mask", "t2Shift", None, None, None, "t1Mask", "t1Shift", None, None, None, "t0Mask",
    "tRotL", "tRotMask", "tRotR",
    "f1Mask", "f1Shift", "f1Mul", "f2Mask", "f2Shift", "f2Mul", "f3Mask", "f3Shift", "outMask",
]


def generate():
    import pycoin.contrib.ripemd160 as R
    import pycoin.bloomfilter as B

    out = ["namespace Pycoin.Gen.HashTables\n"]
    out.append("/-! pycoin/contrib/ripemd160.py -/")
    for name in ("ML", "MR", "RL", "RR", "KL", "KR"):
        out.append("def %s : List Int := %s" % (name, _int_list(getattr(R, name, []))))
    rtree = ast.parse(inspect.getsource(R))
    init = []
    f = _func(rtree, "ripemd160")
    if f is not None:
        for st in f.body:
            if isinstance(st, ast.Assign) and any(getattr(t, "id", None) == "state" for t in st.targets) and isinstance(st.value, ast.Tuple):
                init = _ints(st.value)
                break
    out.append("/-- `state = (...)` at the top of `ripemd160()` -/")
    out.append("def initState : List Int := %s" % _int_list(init))

    out.append("\n/-! pycoin/bloomfilter.py:murmur3 — integer literals by role, in source order -/")
    btree = ast.parse(inspect.getsource(B))
    m = _func(btree, "murmur3")
    lits = []
    if m is not None:
        for st in m.body:
            lits += _ints(st)
    shape_ok = len(lits) == len(MURMUR_ROLES)
    for i, role in enumerate(MURMUR_ROLES):
        if role is not None:
            out.append("def mm_%s : Int := %s" % (role, _int(lits[i]) if i < len(lits) else "(-1)"))
    out.append("/-- all literals, for reference; `murmurShapeOk` = their number is the one the role list expects -/")
    out.append("def murmurLits : List Int := %s" % _int_list(lits))
    out.append("def murmurShapeOk : Bool := %s" % ("true" if shape_ok else "false"))

    out.append("\n/-! pycoin/bloomfilter.py:BloomFilter -/")
    seed_mul, size_max = -1, -1
    cls = next((n for n in ast.walk(btree) if isinstance(n, ast.ClassDef) and n.name == "BloomFilter"), None)
    if cls is not None:
        fa = _func(cls, "add_item")
        if fa is not None:
            v = _ints(fa)
            if len(v) == 1:
                seed_mul = v[0]
        fi = _func(cls, "__init__")
        if fi is not None:
            v = _ints(fi)
            if len(v) == 2:      # `size_in_bytes > 36000`, `8 * size_in_bytes`
                size_max = v[0]
    out.append("def bloomSeedMul : Int := %s" % _int(seed_mul))
    out.append("def bloomMaxSize : Int := %s" % _int(size_max))
    out.append("def bloomMaskArray : List Int := %s" % _int_list(getattr(B.BloomFilter, "MASK_ARRAY", [])))
    out.append("\nend Pycoin.Gen.HashTables\n")
    return {"HashTables": "\n".join(out)}
