"""Gen/HashTables.lean: the tables of pycoin/contrib/ripemd160.py (ML MR RL RR KL KR, initial state), the arithmetic
constants of pycoin/bloomfilter.py:murmur3 and the Bloom filter constants (hash-seed multiplier, size limit, MASK_ARRAY).

Nothing is emitted unless it is certain.  Candidates are located by shape, wherever they are assigned (the 80-element
integer lists, the 5-element lists of 32-bit words, the 5-tuple of 32-bit words that is neither KL nor KR; the integer
literals of bloomfilter.py), preferring the conventional names when they exist, and every extraction is then *validated
by behaviour*: the constants, put into a reference rendition of the algorithm written here, must reproduce what the
module itself computes on a probe set, and exactly one assignment of candidates to roles may do so.  Anything else
raises TranslatorUnsure: translate/gen.py then keeps the committed Gen file and the run falls back to the correspondence
tie (a changed constant still changes the Gen file and breaks the theorem that mentions it; a changed algorithm makes
the probe fail, the committed tables stay, and the correspondence check and its oracles find the input)."""
import ast
import inspect
import itertools
import struct

M32 = 0xFFFFFFFF


class TranslatorUnsure(Exception):
    pass


def _is_int(x):
    return isinstance(x, int) and not isinstance(x, bool)


def _int_seqs(tree):
    """every list/tuple display made only of integer literals, in source order: (lineno, col, values)"""
    res = []
    for n in ast.walk(tree):
        if isinstance(n, (ast.List, ast.Tuple)) and n.elts and all(isinstance(e, ast.Constant) and _is_int(e.value) for e in n.elts):
            res.append((n.lineno, n.col_offset, [e.value for e in n.elts]))
    res.sort()
    return [v for _, _, v in res]


def _int_literals(tree):
    return [c.value for c in ast.walk(tree) if isinstance(c, ast.Constant) and _is_int(c.value)]


def _lean_list(xs):
    return "[" + ", ".join(str(x) for x in xs) + "]"


# ------------------------------------------------------------------ RIPEMD-160

def _ref_ripemd160(data, ML, MR, RL, RR, KL, KR, init):
    """the algorithm of the standard with the given tables (32-bit arithmetic throughout)"""
    def rol(x, i):
        return ((x << i) | (x >> (32 - i))) & M32

    def f(i, x, y, z):
        if i == 0:
            return x ^ y ^ z
        if i == 1:
            return (x & y) | (~x & M32 & z)
        if i == 2:
            return (x | (~y & M32)) ^ z
        if i == 3:
            return (x & z) | (y & ~z & M32)
        return x ^ (y | (~z & M32))
    msg = data + b"\x80" + b"\x00" * ((119 - len(data)) % 64) + struct.pack("<Q", (8 * len(data)) & (2 ** 64 - 1))
    h = list(init)
    for o in range(0, len(msg), 64):
        X = struct.unpack("<16L", msg[o:o + 64])
        l, r = list(h), list(h)
        for j in range(80):
            g = j >> 4
            t = (rol((l[0] + f(g, l[1], l[2], l[3]) + X[ML[j]] + KL[g]) & M32, RL[j]) + l[4]) & M32
            l = [l[4], t, l[1], rol(l[2], 10), l[3]]
            t = (rol((r[0] + f(4 - g, r[1], r[2], r[3]) + X[MR[j]] + KR[g]) & M32, RR[j]) + r[4]) & M32
            r = [r[4], t, r[1], rol(r[2], 10), r[3]]
        h = [(h[1] + l[2] + r[3]) & M32, (h[2] + l[3] + r[4]) & M32, (h[3] + l[4] + r[0]) & M32,
             (h[4] + l[0] + r[1]) & M32, (h[0] + l[1] + r[2]) & M32]
    return struct.pack("<5L", *h)


_RMD_PROBES = [b"", b"a", b"abc", bytes(range(55)), bytes(range(56)), bytes(range(64)), bytes(range(119)), bytes(range(120)) + b"\xff" * 9]


def _ripemd_tables():
    import pycoin.contrib.ripemd160 as R
    tree = ast.parse(inspect.getsource(R))
    seqs = _int_seqs(tree)
    want = [R.ripemd160(p) for p in _RMD_PROBES]

    def fits(ML, MR, RL, RR, KL, KR, init):
        try:
            return all(_ref_ripemd160(p, ML, MR, RL, RR, KL, KR, init) == w for p, w in zip(_RMD_PROBES, want))
        except Exception:  # noqa: BLE001
            return False

    def ok80(t, hi):
        return isinstance(t, list) and len(t) == 80 and all(_is_int(v) and 0 <= v <= hi for v in t)

    def ok5(t):
        return isinstance(t, (list, tuple)) and len(t) == 5 and all(_is_int(v) and 0 <= v <= M32 for v in t)

    # candidates: the conventional names when they hold well-formed values, else every literal sequence of the right shape
    named = {n: getattr(R, n, None) for n in ("ML", "MR", "RL", "RR", "KL", "KR")}
    sel = [list(t) for t in seqs if ok80(list(t), 15)]
    rot = [list(t) for t in seqs if ok80(list(t), 31) and not ok80(list(t), 15)]
    five = [list(t) for t in seqs if ok5(t)]
    if all(ok80(named[n], 15) for n in ("ML", "MR")) and all(ok80(named[n], 32) for n in ("RL", "RR")) and all(ok5(named[n]) for n in ("KL", "KR")):
        table_choices = [tuple(list(named[n]) for n in ("ML", "MR", "RL", "RR", "KL", "KR"))]
        inits = [t for t in five if t != list(named["KL"]) and t != list(named["KR"])]
    else:
        table_choices = []
        for a, b in itertools.permutations(sel, 2):
            for c, d in itertools.permutations(rot, 2):
                for e, g in itertools.permutations(five, 2):
                    table_choices.append((a, b, c, d, e, g))
        inits = five
        if len(table_choices) > 5000:
            raise TranslatorUnsure("too many table candidates in contrib/ripemd160.py (%d)" % len(table_choices))
    uniq = []
    for init in inits:
        for tc in table_choices:
            if init in (tc[4], tc[5]) and len(table_choices) > 1:
                continue
            if fits(*tc, init) and (tc, init) not in uniq:
                uniq.append((tc, init))
    if len(uniq) != 1:
        raise TranslatorUnsure("contrib/ripemd160.py: %d assignments of the literal tables reproduce ripemd160() on the probe set "
                               "(need exactly 1; %d selection, %d rotation, %d five-word candidates)" % (len(uniq), len(sel), len(rot), len(five)))
    return uniq[0]


# ------------------------------------------------------------------ murmur3 / BloomFilter

def _ref_murmur3(data, seed, P):
    def rotl(x, r):
        return ((x << r) | (x >> (32 - r))) & M32

    def mix(k):
        return (rotl((k * P["c1"]) & M32, P["r1"]) * P["c2"]) & M32
    h = seed & M32
    n = len(data)
    for i in range(n // 4):
        h ^= mix(int.from_bytes(data[4 * i:4 * i + 4], "little"))
        h = (rotl(h, P["r2"]) * P["m"] + P["n"]) & M32
    if n % 4:
        h ^= mix(int.from_bytes(data[4 * (n // 4):], "little"))
    h ^= n & M32
    h ^= h >> P["s1"]
    h = (h * P["f1"]) & M32
    h ^= h >> P["s2"]
    h = (h * P["f2"]) & M32
    h ^= h >> P["s3"]
    return h


def _murmur_constants(B, lits):
    """find the eleven arithmetic constants among the module's integer literals by probing, stage by stage:
    empty input isolates fmix (f1 f2 s1 s2 s3), a one-byte input adds the block scrambling (c1 c2 r1), a four-byte
    input adds the body step (r2 m n).  Every stage must have exactly one solution."""
    big = sorted({v for v in lits if 2 ** 16 <= v <= M32 and v not in (M32, 0xFFFFFFFC)})
    small = sorted({v for v in lits if 1 <= v <= 31})
    if len(big) > 12 or len(small) > 24:
        raise TranslatorUnsure("bloomfilter.py: too many literal candidates (%d large, %d small)" % (len(big), len(small)))
    mm = B.murmur3
    seeds = [0, 1, 0xDEADBEEF, M32, 0x12345678]
    base = {"c1": 1, "c2": 1, "r1": 1, "r2": 1, "m": 1, "n": 0}

    def solve(keys, pools, probes, fixed):
        want = [mm(d, seed=s) for d, s in probes]
        sols = []
        for combo in itertools.product(*pools):
            P = dict(base, **fixed, **dict(zip(keys, combo)))
            if all(_ref_murmur3(d, s, P) == w for (d, s), w in zip(probes, want)):
                sols.append(dict(zip(keys, combo)))
                if len(sols) > 1:
                    break
        if len(sols) != 1:
            raise TranslatorUnsure("bloomfilter.py: %s solutions for the murmur3 constants %s (need exactly 1)" % ("no" if not sols else "several", "/".join(keys)))
        return dict(fixed, **sols[0])
    P = solve(["f1", "f2", "s1", "s2", "s3"], [big, big, small, small, small], [(b"", s) for s in seeds], {})
    P = solve(["c1", "c2", "r1"], [big, big, small], [(bytes([b]), s) for b in (1, 0x80, 0xFF) for s in seeds[:3]], P)
    P = solve(["r2", "m", "n"], [small, small, big], [(d, s) for d in (b"\x01\x02\x03\x84", b"\xff\xff\xff\xff") for s in seeds[:3]], P)
    for n in list(range(0, 14)) + [31, 32, 33, 64, 100]:
        for s in (0, 7, M32, 2 ** 32 + 5, -3):
            d = bytes((37 * i + n) % 256 for i in range(n))
            if mm(d, seed=s) != _ref_murmur3(d, s, P):
                raise TranslatorUnsure("bloomfilter.py: murmur3 is not the reference algorithm with the constants found")
    return P


def _bloom_constants(B, tree, P):
    cls = next((n for n in ast.walk(tree) if isinstance(n, ast.ClassDef) and n.name == "BloomFilter"), None)
    lits = _int_literals(cls if cls is not None else tree)
    mask = getattr(B.BloomFilter, "MASK_ARRAY", None)
    if not (isinstance(mask, list) and len(mask) == 8 and all(_is_int(v) and 0 <= v <= 255 for v in mask)):
        raise TranslatorUnsure("bloomfilter.py: MASK_ARRAY is not a list of 8 byte values")
    # size limit: the literal v for which BloomFilter(v) is accepted and BloomFilter(v+1) is refused
    limits = []
    for v in sorted({v for v in lits if 1 <= v <= 10 ** 7}):
        try:
            B.BloomFilter(v, 1, 0)
        except Exception:  # noqa: BLE001
            continue
        try:
            B.BloomFilter(v + 1, 1, 0)
        except ValueError:
            limits.append(v)
        except Exception:  # noqa: BLE001
            pass
    if len(limits) != 1:
        raise TranslatorUnsure("bloomfilter.py: %d candidates for the filter size limit" % len(limits))
    # seed multiplier: the large literal with which the reference BIP37 filter reproduces add_item
    items = [b"", b"\x01", bytes(range(20)), bytes(range(36))]
    muls = []
    for v in sorted({v for v in lits if 2 ** 16 <= v <= M32}):
        good = True
        for size, nh, tw in ((3, 5, 0), (16, 7, 2147483649), (64, 11, 2 ** 32 + 5)):
            f = B.BloomFilter(size, nh, tw)
            ref = bytearray(size)
            for it in items:
                f.add_item(it)
                for k in range(nh):
                    i = _ref_murmur3(it, (k * v + tw) & M32, P) % (8 * size)
                    ref[i >> 3] |= mask[i & 7]
            if bytes(f.filter_bytes) != bytes(ref):
                good = False
                break
        if good:
            muls.append(v)
    if len(muls) != 1:
        raise TranslatorUnsure("bloomfilter.py: %d candidates for the hash-seed multiplier" % len(muls))
    return muls[0], limits[0], mask


def generate():
    import pycoin.bloomfilter as B

    (ML, MR, RL, RR, KL, KR), init = _ripemd_tables()
    btree = ast.parse(inspect.getsource(B))
    P = _murmur_constants(B, _int_literals(btree))
    seed_mul, size_max, mask = _bloom_constants(B, btree, P)

    out = ["namespace Pycoin.Gen.HashTables\n"]
    out.append("/-! pycoin/contrib/ripemd160.py — located by shape, validated by reproducing ripemd160() on a probe set -/")
    for name, t in (("ML", ML), ("MR", MR), ("RL", RL), ("RR", RR), ("KL", KL), ("KR", KR)):
        out.append("def %s : List Int := %s" % (name, _lean_list(t)))
    out.append("/-- the initial chaining value -/")
    out.append("def initState : List Int := %s" % _lean_list(init))
    out.append("\n/-! pycoin/bloomfilter.py:murmur3 — the arithmetic constants, found among the module's literals as the unique")
    out.append("assignment with which the reference algorithm reproduces murmur3() on a probe set -/")
    for lean, key in (("mmC1", "c1"), ("mmC2", "c2"), ("mmR1", "r1"), ("mmR2", "r2"), ("mmM", "m"), ("mmN", "n"),
                      ("mmF1", "f1"), ("mmF2", "f2"), ("mmS1", "s1"), ("mmS2", "s2"), ("mmS3", "s3")):
        out.append("def %s : Int := %d" % (lean, P[key]))
    out.append("\n/-! pycoin/bloomfilter.py:BloomFilter -/")
    out.append("def bloomSeedMul : Int := %d" % seed_mul)
    out.append("def bloomMaxSize : Int := %d" % size_max)
    out.append("def bloomMaskArray : List Int := %s" % _lean_list(mask))
    out.append("\nend Pycoin.Gen.HashTables\n")
    return {"HashTables": "\n".join(out)}
