"""Gen/PstrKeys.lean: the cache key under which each cached decoder of parseable_str stores its answer.

Found by running every decoder on a fresh parseable_str and reading which key it inserted first into `_cache`
(`cache()` inserts its own key before calling the wrapped function, so nested decoders come later)."""
from gen import lean_str, lean_bytes
import grs_stub


def own_key(fn):
    from pycoin.networks.parseable_str import parseable_str
    ps = parseable_str("1")
    fn(ps)
    keys = list(ps._cache.keys())
    if not keys:
        raise SystemExit("gen_pstr: %s did not use the cache" % fn.__name__)
    return keys[0]


def generate():
    import sys
    before = sys.modules.get("groestlcoin_hash")
    grs_stub.install()
    try:
        return _generate()
    finally:                       # leave the translator process as it was for the generators that run after this one
        if before is None:
            sys.modules.pop("groestlcoin_hash", None)
        else:
            sys.modules["groestlcoin_hash"] = before


def _generate():
    from pycoin.networks import parseable_str as P
    from pycoin.coins.groestlcoin import parse as G
    out = ["namespace Pycoin.Gen.PstrKeys\n"]
    out.append("def keyB58 : String := %s" % lean_str(own_key(P.parse_b58)))
    out.append("def keyB58Sha : String := %s" % lean_str(own_key(P.parse_b58_double_sha256)))
    out.append("def keyB58Grs : String := %s" % lean_str(own_key(G.parse_b58_groestl)))
    out.append("def keyBech32 : String := %s" % lean_str(own_key(P.parse_bech32)))
    out.append("/-- prefix of the groestl stand-in hash (translate/grs_stub.py) -/")
    out.append("def grsPrefix : List UInt8 := %s" % lean_bytes(grs_stub.PREFIX))
    out.append("\nend Pycoin.Gen.PstrKeys\n")
    return {"PstrKeys": "\n".join(out)}
