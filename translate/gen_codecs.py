"""Gen/Codecs.lean: Base58 alphabet and lookup table, Bech32 CHARSET, generator words, BECH32M_CONST, Encoding tags.

Sources: pycoin/encoding/b58.py (module attributes, introspected) and pycoin/contrib/bech32m.py (module attributes
introspected; the `generator` list and the literal masks/shifts of bech32_polymod are local to the function and are
read from its AST).
"""
from __future__ import annotations

import ast
import inspect


def _polymod_literals(mod):
    """the literals of bech32_polymod: generator list, start value, top shift, mask, symbol shift, range bound"""
    fn = ast.parse(inspect.getsource(mod.bech32_polymod)).body[0]
    gen = None
    start = None
    top_shift = mask = sym_shift = rng = None
    for node in ast.walk(fn):
        if isinstance(node, ast.Assign) and len(node.targets) == 1 and isinstance(node.targets[0], ast.Name):
            name = node.targets[0].id
            if name == "generator":
                gen = [ast.literal_eval(e) for e in node.value.elts]
            elif name == "chk" and isinstance(node.value, ast.Constant) and start is None:
                start = node.value.value
            elif name == "top":
                # chk >> 25
                assert isinstance(node.value, ast.BinOp) and isinstance(node.value.op, ast.RShift)
                top_shift = ast.literal_eval(node.value.right)
            elif name == "chk" and isinstance(node.value, ast.BinOp):
                # (chk & 0x1FFFFFF) << 5 ^ value   parses as  ((chk & m) << 5) ^ value
                v = node.value
                assert isinstance(v.op, ast.BitXor) and isinstance(v.left, ast.BinOp) and isinstance(v.left.op, ast.LShift)
                sym_shift = ast.literal_eval(v.left.right)
                inner = v.left.left
                assert isinstance(inner, ast.BinOp) and isinstance(inner.op, ast.BitAnd)
                mask = ast.literal_eval(inner.right)
        if isinstance(node, ast.For) and isinstance(node.iter, ast.Call) and getattr(node.iter.func, "id", "") == "range":
            rng = ast.literal_eval(node.iter.args[0])
    if None in (gen, start, top_shift, mask, sym_shift, rng):
        raise SystemExit("gen_codecs: bech32_polymod no longer has the expected shape")
    return gen, start, top_shift, mask, sym_shift, rng


def generate():
    from pycoin.encoding import b58
    from pycoin.contrib import bech32m

    out = ["namespace Pycoin.Gen.Codecs\n"]
    out.append("/-- `BASE58_ALPHABET` (bytes) -/")
    out.append("def base58Alphabet : List UInt8 := [%s]" % ", ".join(str(x) for x in bytes(b58.BASE58_ALPHABET)))
    out.append("/-- `BASE58_BASE` -/")
    out.append("def base58Base : Nat := %d" % b58.BASE58_BASE)
    out.append("/-- `BASE58_LOOKUP` (dict byte -> index), sorted by key -/")
    out.append("def base58Lookup : List (UInt8 × Nat) := [%s]" % ", ".join("(%d, %d)" % (k, v) for k, v in sorted(b58.BASE58_LOOKUP.items())))
    out.append("/-- `CHARSET` (code points) -/")
    out.append("def bech32Charset : List Char := [%s]" % ", ".join("Char.ofNat %d" % ord(c) for c in bech32m.CHARSET))
    out.append("/-- `BECH32M_CONST` -/")
    out.append("def bech32mConst : Nat := %d" % bech32m.BECH32M_CONST)
    gen, start, top_shift, mask, sym_shift, rng = _polymod_literals(bech32m)
    out.append("/-- `generator` of bech32_polymod -/")
    out.append("def bech32Generator : List Nat := [%s]" % ", ".join(str(g) for g in gen))
    out.append("def polymodStart : Nat := %d" % start)
    out.append("def polymodTopShift : Nat := %d" % top_shift)
    out.append("def polymodMask : Nat := %d" % mask)
    out.append("def polymodSymShift : Nat := %d" % sym_shift)
    out.append("def polymodRange : Nat := %d" % rng)
    out.append("/-- `Encoding.BECH32`, `Encoding.BECH32M` -/")
    out.append("def encBech32 : Nat := %d" % bech32m.Encoding.BECH32)
    out.append("def encBech32m : Nat := %d" % bech32m.Encoding.BECH32M)
    # default max_length of bech32_decode
    sig = inspect.signature(bech32m.bech32_decode)
    out.append("/-- default `max_length` of bech32_decode -/")
    out.append("def bech32MaxLength : Nat := %d" % sig.parameters["max_length"].default)
    out.append("\nend Pycoin.Gen.Codecs\n")
    return {"Codecs": "\n".join(out)}
