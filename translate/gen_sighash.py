"""Gen/Sighash.lean: what the signature-hash code of pycoin is parameterised by.

* SIGHASH_* constants (pycoin/satoshi/flags.py, imported);
* the literals of `BitcoinSolutionChecker._signature_hash` (AST): the mask in `hash_type & <mask>`, the value returned for
  SIGHASH_SINGLE without a matching output (`1 << 248`), the amount of the "null" outputs, the script whose instructions
  are stripped (`compile("OP_CODESEPARATOR")`, evaluated);
* the masks and format strings of the BIP143 functions of `SegwitChecker` and of the Groestlcoin overrides (AST);
* per transaction class (network.tx of pycoin.symbols.<x>): whether `_signature_hash` refuses hash types without the
  fork-id bit (probed), the fork id or-ed into the hash-type word by `_signature_for_hash_type_segwit` (probed against
  the preimage function), whether the BIP143 path and `Tx.hash(hash_type)` hash once or twice (probed against hashlib).
"""
from __future__ import annotations

import ast
import hashlib
import importlib
from pathlib import Path

from gen_formats import _calls, _lean_chars, _name

COINS = ["btc", "ltc", "grs", "bch", "btg"]


def _func(path: Path, cls: str, name: str):
    tree = ast.parse(path.read_text())
    for node in tree.body:
        if isinstance(node, ast.ClassDef) and node.name == cls:
            for fn in node.body:
                if isinstance(fn, ast.FunctionDef) and fn.name == name:
                    return fn
    raise SystemExit("gen_sighash: %s.%s not found in %s" % (cls, name, path))


def _and_masks(fn, var="hash_type"):
    """the integer literals C of every `hash_type & C` in the function, in source order"""
    res = []
    nodes = [n for n in ast.walk(fn) if isinstance(n, ast.BinOp) and isinstance(n.op, ast.BitAnd)]
    nodes.sort(key=lambda n: (n.lineno, n.col_offset))
    for n in nodes:
        if isinstance(n.left, ast.Name) and n.left.id == var and isinstance(n.right, ast.Constant) and isinstance(n.right.value, int):
            res.append(n.right.value)
    return res


def _one(xs, what):
    xs = sorted(set(xs))
    if len(xs) != 1:
        raise SystemExit("gen_sighash: expected exactly one %s, found %r" % (what, xs))
    return xs[0]


def generate():
    import pycoin
    from pycoin.satoshi import flags
    root = Path(pycoin.__file__).resolve().parent
    out = ["namespace Pycoin.Gen.Sighash", ""]
    for k in ("SIGHASH_ALL", "SIGHASH_NONE", "SIGHASH_SINGLE", "SIGHASH_FORKID", "SIGHASH_ANYONECANPAY"):
        out.append("def %s : Nat := %d" % (_name(k.lower()), getattr(flags, k)))
    out.append("")

    # ---- BitcoinSolutionChecker._signature_hash literals
    p = root / "coins/bitcoin/SolutionChecker.py"
    fn = _func(p, "BitcoinSolutionChecker", "_signature_hash")
    out.append("/-- the literal of `hash_type & …` in `_signature_hash` (every occurrence carries the same one) -/")
    out.append("def legacyMask : Nat := %d" % _one(_and_masks(fn), "mask in _signature_hash"))
    shifts = [n for n in ast.walk(fn) if isinstance(n, ast.Return) and isinstance(n.value, ast.BinOp) and isinstance(n.value.op, ast.LShift)]
    if len(shifts) != 1:
        raise SystemExit("gen_sighash: `return a << b` not found exactly once in _signature_hash")
    v = shifts[0].value
    out.append("/-- `return %s` (SIGHASH_SINGLE with no matching output) -/" % ast.unparse(v))
    out.append("def singleBugValue : Nat := %d" % (ast.literal_eval(v.left) << ast.literal_eval(v.right)))
    nulls = []
    for c in ast.walk(fn):
        if isinstance(c, ast.Call) and ast.unparse(c.func) == "self.tx.TxOut" and len(c.args) == 2 and all(isinstance(a, ast.Constant) for a in c.args):
            nulls.append((c.args[0].value, c.args[1].value))
    if len(nulls) != 1:
        raise SystemExit("gen_sighash: the null TxOut literal was not found exactly once")
    out.append("/-- `self.tx.TxOut(%d, %r)`: the outputs before the signed one under SIGHASH_SINGLE -/" % nulls[0])
    out.append("def nullOutValue : Nat := %d" % nulls[0][0])
    out.append("def nullOutScript : List UInt8 := [%s]" % ", ".join(str(x) for x in nulls[0][1]))
    from pycoin.coins.bitcoin.ScriptTools import BitcoinScriptTools
    comp = [c for c in ast.walk(fn) if isinstance(c, ast.Call) and ast.unparse(c.func) == "self.ScriptTools.compile" and c.args and isinstance(c.args[0], ast.Constant)]
    if len(comp) != 1:
        raise SystemExit("gen_sighash: ScriptTools.compile(<literal>) not found exactly once in _signature_hash")
    sub = BitcoinScriptTools.compile(comp[0].args[0].value)
    out.append("/-- `self.ScriptTools.compile(%r)` -/" % comp[0].args[0].value)
    out.append("def strippedSubscript : List UInt8 := [%s]" % ", ".join(str(x) for x in sub))
    out.append("")

    # ---- BIP143 functions: masks and formats
    for rel, cls, prefix in [("coins/bitcoin/SegwitChecker.py", "SegwitChecker", "segwit"),
                             ("coins/groestlcoin/SolutionChecker.py", "GroestlcoinSolutionChecker", "grs")]:
        for meth in ("_hash_sequence", "_hash_outputs"):
            f2 = _func(root / rel, cls, meth)
            out.append("/-- the literal of `hash_type & …` in %s.%s -/" % (cls, meth))
            out.append("def %s_%s_mask : Nat := %d" % (prefix, _name(meth), _one(_and_masks(f2), "mask in " + meth)))
        seen = {}
        for meth, kind, fmt, label in _calls(root / rel, cls):
            if kind != "stream":
                continue
            nm = prefix + "_" + _name(meth) + "_" + (_name(label) if label else "fields")
            if nm in seen:
                if seen[nm] != fmt:
                    raise SystemExit("gen_sighash: two different formats for " + nm)
                continue
            seen[nm] = fmt
            out.append("/-- `stream_struct(\"%s\", f, %s)` in %s.%s -/" % (fmt, label, cls, meth))
            out.append("def %s : List Char := %s" % (nm, _lean_chars(fmt)))
        out.append("")

    # ---- per transaction class
    for c in COINS:
        net = importlib.import_module("pycoin.symbols." + c).network
        T = net.tx
        tx = T(2, [T.TxIn(b"\x11" * 32, 3, b"\x51", 5), T.TxIn(b"\x12" * 32, 1, b"", 6)], [T.TxOut(7, b"\x52"), T.TxOut(8, b"\x53\x54")], 9)
        tx.set_unspents([T.TxOut(1000, b"\x51"), T.TxOut(2000, b"\x52")])
        sc = tx.SolutionChecker(tx)
        script = b"\x76\xa9\xac"
        try:
            sc._signature_hash(script, 0, 1)
            refuses = False
        except tx.SolutionChecker.ScriptError:
            refuses = True
        except Exception as e:  # noqa: BLE001
            raise SystemExit("gen_sighash: %s _signature_hash raised %r" % (c, e))
        if refuses:
            # and it accepts with the bit set
            sc._signature_hash(script, 0, 1 | flags.SIGHASH_FORKID)
        try:
            sc._signature_for_hash_type_segwit(script, 1, 1)
            seg_refuses = False
        except tx.SolutionChecker.ScriptError:
            seg_refuses = True
        got = sc._signature_for_hash_type_segwit(script, 1, 0x41)
        fork_id, single = None, None
        for k in sorted({0} | {v for kk, v in vars(type(sc)).items() if kk.startswith("FORKID") and isinstance(v, int)}):
            pre = sc._segwit_signature_preimage(script, 1, 0x41 | (k << 8))
            d1 = hashlib.sha256(pre).digest()
            d2 = hashlib.sha256(d1).digest()
            if got == int.from_bytes(d1, "big"):
                fork_id, single = k, True
            elif got == int.from_bytes(d2, "big"):
                fork_id, single = k, False
        if fork_id is None:
            raise SystemExit("gen_sighash: cannot explain the BIP143 digest of class %s" % c)
        b = tx.as_bin(include_witness_data=False) + (1).to_bytes(4, "little")
        h = bytes(tx.hash(hash_type=1))
        if h == hashlib.sha256(b).digest():
            single_legacy = True
        elif h == hashlib.sha256(hashlib.sha256(b).digest()).digest():
            single_legacy = False
        else:
            raise SystemExit("gen_sighash: cannot explain Tx.hash(hash_type) of class %s" % c)
        # do the BIP143 part hashes (hashPrevouts …) hash once or twice?
        hp = bytes(sc._hash_prevouts(1))
        raw = b"".join(t.previous_hash + t.previous_index.to_bytes(4, "little") for t in tx.txs_in)
        if hp == hashlib.sha256(raw).digest():
            single_parts = True
        elif hp == hashlib.sha256(hashlib.sha256(raw).digest()).digest():
            single_parts = False
        else:
            raise SystemExit("gen_sighash: cannot explain _hash_prevouts of class %s" % c)
        # does the closure of _make_sighash_f remove the signature pushes from the script code?
        class _VM:
            pass
        vm = _VM()
        sig = bytes.fromhex("3006020101020101") + b"\x41"
        vm.script = bytes([len(sig)]) + sig + script
        vm.begin_code_hash = 0
        got_f = sc._make_sighash_f(0)(0x41, [sig], vm)
        if got_f == sc._signature_hash(script, 0, 0x41):
            deletes = True
        elif got_f == sc._signature_hash(vm.script, 0, 0x41):
            deletes = False
        else:
            raise SystemExit("gen_sighash: cannot explain the closure of _make_sighash_f of class %s" % c)
        out.append("/-- %s: SolutionChecker = %s -/" % (c, type(sc).__name__))
        out.append("def %s_closureDeletesSigs : Bool := %s" % (c, "true" if deletes else "false"))
        out.append("def %s_requiresForkId : Bool := %s" % (c, "true" if refuses else "false"))
        out.append("/-- does `_signature_for_hash_type_segwit` itself refuse hash types without the fork-id bit? -/")
        out.append("def %s_segwitRequiresForkId : Bool := %s" % (c, "true" if seg_refuses else "false"))
        out.append("def %s_forkId : Nat := %d" % (c, fork_id))
        out.append("def %s_segwitSingleSha : Bool := %s" % (c, "true" if single else "false"))
        out.append("def %s_segwitPartsSingleSha : Bool := %s" % (c, "true" if single_parts else "false"))
        out.append("def %s_legacySingleSha : Bool := %s" % (c, "true" if single_legacy else "false"))
        out.append("def %s_grsOverrides : Bool := %s\n" % (c, "true" if type(sc).__name__ == "GroestlcoinSolutionChecker" else "false"))
    out.append("end Pycoin.Gen.Sighash\n")
    return {"Sighash": "\n".join(out)}
