"""Gen/Curves.lean: (p, a, b, Gx, Gy, n) of the shipped generators, read from the live objects, and Pratt
certificates for their p and n.  Certificates are computed with sympy under `python3-vt` and cached in
translate/pratt_cache.json keyed by the constant; a constant is recomputed only when it is not in the cache
(i.e. when the constant in /repo changed).  A constant that is not prime gets the empty certificate, so the
primality theorem of Props/C02 that mentions it stops checking.

Also a certificate `noroot_<curve>` that x^3 + a*x + b has no root modulo p (no point with y = 0, i.e. no point of
order two; Proofs/CurveCard.lean derives #E(F_p) = n from it): the inverse of X^p - X in F_p[X]/(x^3 + a*x + b), computed
here in plain Python and checked in the Lean kernel (Spec/CubicRoot.lean), so this computation is not trusted.  A cubic
that has a root gets the zero triple, and the theorems that use the certificate stop checking."""
import json
import os
import subprocess
from pathlib import Path

HERE = Path(__file__).resolve().parent
CACHE = HERE / "pratt_cache.json"
# BLS12-381 p needs the factorisation of a 381-bit p-1 (minutes): only attempted when allowed
SLOW_OK = os.environ.get("VERIF_PRATT_SLOW") == "1"


def _load():
    if CACHE.exists():
        return json.loads(CACHE.read_text())
    return {}


def _cert(n: int, cache: dict, slow=False):
    key = str(n)
    if key in cache:
        return cache[key]
    if slow and not SLOW_OK:
        return None
    try:
        p = subprocess.run(["python3-vt", str(HERE / "pratt_cert.py"), key], capture_output=True, text=True,
                           timeout=1800 if slow else 240)
        val = json.loads(p.stdout) if p.returncode == 0 else None
    except Exception:  # noqa: BLE001
        val = None
    if val is not None:
        cache[key] = val
        try:
            CACHE.write_text(json.dumps(cache, indent=0, sort_keys=True))
        except OSError:
            pass
    return val


def _lean_cert(name, cert):
    if not cert:
        return "def %s : List Pycoin.Pratt.Entry := []\n" % name
    rows = ["  ⟨%d, %d, [%s]⟩" % (q, a, ", ".join("(%d, %d)" % (f, e) for f, e in fs)) for q, a, fs in cert]
    return "def %s : List Pycoin.Pratt.Entry := [\n%s]\n" % (name, ",\n".join(rows))


def _mulmod(u, v, p, na, nb):
    """product in F_p[X]/(X^3 - na*X - nb), as Spec/CubicRoot.lean `mulMod`"""
    d3 = u[1] * v[2] + u[2] * v[1]
    d4 = u[2] * v[2]
    return ((u[0] * v[0] + nb * d3) % p, (u[0] * v[1] + u[1] * v[0] + na * d3 + nb * d4) % p,
            (u[0] * v[2] + u[1] * v[1] + u[2] * v[0] + na * d4) % p)


def _xpow(e, p, na, nb):
    r = (1 % p, 0, 0)
    for bit in bin(e)[2:]:
        r = _mulmod(r, r, p, na, nb)
        if bit == "1":
            r = _mulmod(r, (0, 1, 0), p, na, nb)
    return r


def _noroot(p, a, b):
    """v with v * (X^p - X) = 1 in F_p[X]/(X^3 + a*X + b), or None (3x3 linear system over F_p)"""
    na, nb = (-a) % p, (-b) % p
    g = _xpow(p, p, na, nb)
    h = (g[0], (g[1] + p - 1) % p, g[2])
    cols = [_mulmod(h, e, p, na, nb) for e in [(1, 0, 0), (0, 1, 0), (0, 0, 1)]]
    m = [[cols[j][i] for j in range(3)] + [1 if i == 0 else 0] for i in range(3)]
    for i in range(3):
        piv = next((r for r in range(i, 3) if m[r][i] % p), None)
        if piv is None:
            return None
        m[i], m[piv] = m[piv], m[i]
        inv = pow(m[i][i], -1, p)
        m[i] = [x * inv % p for x in m[i]]
        for r in range(3):
            if r != i:
                f = m[r][i]
                m[r] = [(x - f * y) % p for x, y in zip(m[r], m[i])]
    v = tuple(m[i][3] for i in range(3))
    return v if _mulmod(v, h, p, na, nb) == (1, 0, 0) else None


def _params(g):
    return dict(p=g._p, a=g._a, b=g._b, gx=g[0], gy=g[1], n=g._order)


def generate():
    from pycoin.ecdsa.secp256k1 import secp256k1_generator
    from pycoin.ecdsa.secp256r1 import secp256r1_generator
    from pycoin.ecdsa.bls12_381_g1 import bls12_381_g1
    curves = [("secp256k1", secp256k1_generator), ("secp256r1", secp256r1_generator), ("bls12_381", bls12_381_g1)]
    cache = _load()
    out = ["import Pycoin.Model.Curve", "import Pycoin.Spec.Pratt", "import Pycoin.Spec.CubicRoot", "namespace Pycoin.Gen.Curves", "open Pycoin.Curve", ""]
    for name, g in curves:
        c = _params(g)
        out.append("def %s : CurveParams :=\n  { p := %d,\n    a := %d,\n    b := %d,\n    gx := %d,\n    gy := %d,\n    n := %d }\n"
                   % (name, c["p"], c["a"], c["b"], c["gx"], c["gy"], c["n"]))
    out.append("def named : List (String × CurveParams) := [%s]\n" % ", ".join('("%s", %s)' % (n, n) for n, _ in curves))
    for name, g in curves:
        c = _params(g)
        out.append(_lean_cert("pratt_%s_p" % name, _cert(c["p"], cache, slow=c["p"].bit_length() > 300)))
        out.append(_lean_cert("pratt_%s_n" % name, _cert(c["n"], cache, slow=c["n"].bit_length() > 300)))
    for name, g in curves:
        c = _params(g)
        v = _noroot(c["p"], c["a"], c["b"]) or (0, 0, 0)
        out.append("/-- inverse of X^p − X modulo x³ + a·x + b and p (zero triple: the cubic has a root) -/\n"
                   "def noroot_%s : Pycoin.CubicRoot.Tri := ⟨%d, %d, %d⟩\n" % ((name,) + tuple(v)))
    out.append("end Pycoin.Gen.Curves\n")
    return {"Curves": "\n".join(out)}
