"""Pratt certificate generation; run under python3-vt (sympy).  usage: pratt_cert.py N  -> JSON on stdout
[[q, a, [[f, e], ...]], ...] ordered so that every factor other than 2 has an earlier entry; `null` if N is not prime."""
import json
import sys

from sympy import factorint, isprime


def witness(q, fs):
    a = 2
    while True:
        if pow(a, q - 1, q) == 1 and all(pow(a, (q - 1) // f, q) != 1 for f in fs):
            return a
        a += 1


def build(q, out, seen):
    if q == 2 or q in seen:
        return
    fac = factorint(q - 1)
    for f in sorted(fac):
        build(f, out, seen)
    out.append([q, witness(q, list(fac)), [[f, e] for f, e in sorted(fac.items())]])
    seen.add(q)


def main():
    n = int(sys.argv[1])
    if n < 3 or not isprime(n):
        print("null")
        return
    out = []
    build(n, out, set())
    print(json.dumps(out))


if __name__ == "__main__":
    main()
