"""Gen/Confusables.lean: every non-ASCII BMP character that Python's str.lower() or str.upper() maps to a string made only
of code points 33..126 (U+212A KELVIN SIGN -> 'k', U+017F -> 'S', U+0131 -> 'I', ligatures, ...).  bech32_decode must
never let one of them reach its case folding: Props/C11 proves that each is refused by the range test that comes first."""


def table():
    rows = []
    for cp in range(0x80, 0x10000):
        if 0xD800 <= cp <= 0xDFFF:
            continue
        c = chr(cp)
        lo, up = c.lower(), c.upper()
        ok = lambda s: len(s) > 0 and all(33 <= ord(x) <= 126 for x in s)  # noqa: E731
        if ok(lo) or ok(up):
            rows.append((cp, [ord(x) for x in lo], [ord(x) for x in up]))
    return rows


def generate():
    rows = table()
    out = ["namespace Pycoin.Gen.Confusables\n"]
    out.append("/-- (code point, code points of `.lower()`, code points of `.upper()`) -/")
    out.append("def caseConfusables : List (Nat × List Nat × List Nat) := [%s]" % ", ".join(
        "(%d, [%s], [%s])" % (cp, ", ".join(map(str, lo)), ", ".join(map(str, up))) for cp, lo, up in rows))
    out.append("\nend Pycoin.Gen.Confusables\n")
    return {"Confusables": "\n".join(out)}
