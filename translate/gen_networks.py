"""Gen/Networks.lean: one `Network` value per module under pycoin/symbols/ (live objects introspected), the
compiled `match` templates of ContractAPI.info_for_script, the `_SCRIPT_LOOKUP` token shapes of ContractAPI.for_info,
the opcode-name table ScriptTools.compile consults, the data-opcode lists of the script streamer.

Prefixes are read where the code keeps them:
  AddressAPI._address_prefix/_pay_to_script_prefix/_bech32_hrp  (what *produces* addresses)
  ParseAPI._*_prefix, _bech32_hrp                                (what *parses* text)
  the closures wif_for_blob / bip32_as_string / bip49_as_string / bip84_as_string are probed by calling them on an
  empty blob and decoding the Base58Check they return (so a changed constant inside the closure shows up here).

Checksum hash (`HashKind`): which hash a network uses is found by PROBING, per code path — `address.b2a`, `wif_for_blob`,
`bipNN_as_string` are called on a blob and the four checksum bytes of the text they return are compared with double SHA-256
and with the Groestl hash; `parse.parse_b58_hashed` is offered the same payload under either checksum.  The Groestl hash is
the stand-in of translate/grs_stub.py (installed before the Groestlcoin-family symbol modules are (re)imported, so that they
keep their real code paths instead of `none_parser`); the model mirrors the stand-in.
"""
from __future__ import annotations

import ast
import importlib
import inspect
import pkgutil
import textwrap

from gen import lean_bytes, lean_str


def opt(x, f):
    return "none" if x is None else "(some %s)" % f(x)


import hashlib

import grs_stub

HASHES = {
    "sha256d": lambda b: hashlib.sha256(hashlib.sha256(b).digest()).digest(),
    "groestl": lambda b: hashlib.sha256(grs_stub.PREFIX + b).digest(),
}


def _kind_of(raw):
    """which checksum hash the decoded Base58 bytes `raw` = payload + 4 carry"""
    hits = [k for k, h in HASHES.items() if len(raw) >= 4 and h(raw[:-4])[:4] == raw[-4:]]
    if len(hits) != 1:
        raise ValueError("checksum of a produced Base58Check text is that of %s" % (hits or "no known hash"))
    return hits[0]


def _probe(f, *args):
    """(prefix, hash kind) used by a `*_as_string`/`wif_for_blob` closure: call it on an empty blob and on a marker blob,
    decode the Base58 text; None when the closure raises (no prefix configured -> TypeError)"""
    from pycoin.encoding.b58 import a2b_base58
    try:
        s0, s1 = f(b"", *args), f(b"\xa5" * 7, *args)
    except TypeError:
        return None
    r0, r1 = a2b_base58(s0), a2b_base58(s1)
    k0, k1 = _kind_of(r0), _kind_of(r1)
    if k0 != k1 or r1[:-4] != r0[:-4] + b"\xa5" * 7:
        raise ValueError("closure %s is not prefix + blob under one checksum hash" % getattr(f, "__name__", f))
    return r0[:-4], k0


def _probe_b2a(b2a):
    from pycoin.encoding.b58 import a2b_base58
    raw = a2b_base58(b2a(b"\x5a" * 21))
    if raw[:-4] != b"\x5a" * 21:
        raise ValueError("address.b2a is not Base58 of payload + checksum")
    return _kind_of(raw)


def _probe_parse(p):
    """the checksum hash `parse_b58_hashed` accepts: offered one payload under either checksum"""
    from pycoin.encoding.b58 import b2a_base58
    payload = b"\x5a" * 21
    hits = [k for k, h in HASHES.items() if p.parse_b58_hashed(b2a_base58(payload + h(payload)[:4])) == payload]
    if len(hits) != 1:
        raise ValueError("%s.parse_b58_hashed accepts the checksum of %s" % (type(p).__name__, hits or "no known hash"))
    return hits[0]


def _kind(k):
    return ".sha256d" if k == "sha256d" else ".groestl"


def _sec_prefix(x):
    # a str when given as sec_prefix=…, bytes when given as sec_prefix_hex=…
    if x is None:
        return "none"
    if isinstance(x, bytes):
        return "(some (Sum.inr %s))" % lean_bytes(x)
    return "(some (Sum.inl %s))" % lean_str(x)


def networks():
    import sys
    before = sys.modules.get("groestlcoin_hash")
    grs_stub.install()
    try:
        return _networks()
    finally:                       # as gen_pstr.py: leave the translator process as it was
        if before is None:
            sys.modules.pop("groestlcoin_hash", None)
        else:
            sys.modules["groestlcoin_hash"] = before


def _networks():
    import pycoin.symbols
    from pycoin.networks.registry import network_codes, network_for_netcode
    from pycoin.networks.ParseAPI import ParseAPI
    from pycoin.encoding.b58 import b2a_hashed_base58
    codes = network_codes()
    mods = sorted(m.name for m in pkgutil.iter_modules(pycoin.symbols.__path__))
    out = []
    for modname in mods:
        module = importlib.import_module("pycoin.symbols." + modname)
        if any(not k.startswith("_") for k in vars(module.network.parse)):
            # imported earlier in this process without the stand-in hash (none_parser patched in): import it again
            module = importlib.reload(module)
        n = module.network
        p, a = n.parse, n.address
        # parser entry points replaced on the instance (grs.py swaps in none_parser when groestlcoin_hash is missing)
        overridden = sorted(k for k in vars(p) if not k.startswith("_"))
        hash_parse = _probe_parse(p)
        wif, b32v, b32u = _probe(n.wif_for_blob), _probe(n.bip32_as_string, True), _probe(n.bip32_as_string, False)
        b49v, b49u = _probe(n.bip49_as_string, True), _probe(n.bip49_as_string, False)
        b84v, b84u = _probe(n.bip84_as_string, True), _probe(n.bip84_as_string, False)

        def pfx(x):
            return None if x is None else x[0]

        def kind2(x, y, what):
            """one closure serves the private and the public form: both must use one hash; an unobservable one (the closure
            raises for lack of a prefix) is reported as the parse side's"""
            ks = {t[1] for t in (x, y) if t is not None}
            if len(ks) > 1:
                raise ValueError("%s.%s uses two checksum hashes" % (modname, what))
            return _kind(ks.pop() if ks else hash_parse)
        fields = [
            ("module", lean_str(modname)),
            ("symbol", lean_str(n.symbol)),
            ("registered", "true" if n.symbol.upper() in codes else "false"),
            ("networkName", lean_str(n.network_name)),
            ("subnetName", lean_str(n.subnet_name)),
            ("addrP2pkh", opt(a._address_prefix, lean_bytes)),
            ("addrP2sh", opt(a._pay_to_script_prefix, lean_bytes)),
            ("addrHrp", opt(a._bech32_hrp, lean_str)),
            ("parseP2pkh", opt(p._address_prefix, lean_bytes)),
            ("parseP2sh", opt(p._pay_to_script_prefix, lean_bytes)),
            ("parseHrp", opt(p._bech32_hrp, lean_str)),
            ("parseWif", opt(p._wif_prefix, lean_bytes)),
            ("outWif", opt(pfx(wif), lean_bytes)),
            ("secPrefix", _sec_prefix(p._sec_prefix)),
            ("parseBip32Prv", opt(p._bip32_prv_prefix, lean_bytes)),
            ("parseBip32Pub", opt(p._bip32_pub_prefix, lean_bytes)),
            ("parseBip49Prv", opt(p._bip49_prv_prefix, lean_bytes)),
            ("parseBip49Pub", opt(p._bip49_pub_prefix, lean_bytes)),
            ("parseBip84Prv", opt(p._bip84_prv_prefix, lean_bytes)),
            ("parseBip84Pub", opt(p._bip84_pub_prefix, lean_bytes)),
            ("outBip32Prv", opt(pfx(b32v), lean_bytes)),
            ("outBip32Pub", opt(pfx(b32u), lean_bytes)),
            ("outBip49Prv", opt(pfx(b49v), lean_bytes)),
            ("outBip49Pub", opt(pfx(b49u), lean_bytes)),
            ("outBip84Prv", opt(pfx(b84v), lean_bytes)),
            ("outBip84Pub", opt(pfx(b84u), lean_bytes)),
            ("parseApi", lean_str(type(p).__name__)),
            ("txClass", lean_str(n.tx.__module__ + "." + n.tx.__name__)),
            ("hashParse", _kind(hash_parse)),
            ("hashAddr", _kind(_probe_b2a(a.b2a))),
            ("hashWif", kind2(wif, None, "wif_for_blob")),
            ("hashBip32", kind2(b32v, b32u, "bip32_as_string")),
            ("hashBip49", kind2(b49v, b49u, "bip49_as_string")),
            ("hashBip84", kind2(b84v, b84u, "bip84_as_string")),
            ("disabled", "[" + ", ".join(lean_str(k) for k in overridden) + "]"),
        ]
        out.append((modname, fields))
    return out


def templates():
    """the literal template strings handed to `self.match(…)` inside ContractAPI (info_for_script), in code order, compiled by the
    network's own script tools (all bitcoinish networks share BitcoinScriptTools)"""
    from pycoin.networks.ContractAPI import ContractAPI
    from pycoin.coins.bitcoin.ScriptTools import BitcoinScriptTools as st
    # info_for_script itself, or the helper it delegates the template walk to
    src = textwrap.dedent(inspect.getsource(ContractAPI))
    tree = ast.parse(src)
    found = []
    for node in ast.walk(tree):
        if isinstance(node, ast.Call) and isinstance(node.func, ast.Attribute) and node.func.attr == "match":
            arg = node.args[0]
            if isinstance(arg, ast.Constant) and isinstance(arg.value, str):
                found.append((node.lineno, node.col_offset, arg.value))
    found.sort()
    return [(t, st.compile(t)) for _l, _c, t in found]


def script_lookup():
    """token shapes produced by ContractAPI._SCRIPT_LOOKUP[type](info): probe every lambda with marker values"""
    from pycoin.networks.ContractAPI import ContractAPI
    marks = {"sec": b"\xa1\xb1", "hash160": b"\xa2\xb2", "hash256": b"\xa3\xb3", "synthetic_key": b"\xa4\xb4"}
    keys = [b"\xa5\xb5", b"\xa6\xb6"]
    res = []
    for typ, f in ContractAPI._SCRIPT_LOOKUP.items():
        info = dict(marks, type=typ, m=7, sec_keys=keys)
        toks = f(info).split()
        shape = []
        i = 0
        while i < len(toks):
            t = toks[i]
            hit = [k for k, v in marks.items() if v.hex() == t]
            if hit:
                shape.append(".field %s" % lean_str(hit[0]))
            elif t == keys[0].hex() and toks[i + 1] == keys[1].hex():
                shape.append(".keys")
                i += 1
            elif t == "7":
                shape.append(".m")
            elif t == "2" and typ == "multisig":
                shape.append(".n")
            else:
                shape.append(".lit %s" % lean_str(t))
            i += 1
        res.append((typ, shape))
    return res


def generate():
    from pycoin.coins.bitcoin.ScriptTools import BitcoinScriptTools as st
    from pycoin.coins.bitcoin.ScriptStreamer import (make_opcode_const_list, make_opcode_sized_list,
                                                     make_opcode_variable_list)
    o = ["import Pycoin.Model.NetworkDef", "namespace Pycoin.Gen.Networks", "open Pycoin.Addr", ""]
    nets = networks()
    for modname, fields in nets:
        o.append("def net_%s : Network :=\n  { %s }" % (modname, "\n    ".join("%s := %s," % kv for kv in fields)[:-1]))
    o.append("")
    o.append("/-- every module under pycoin/symbols/, in directory order -/")
    o.append("def all : List Network := [%s]" % ", ".join("net_" + m for m, _ in nets))
    o.append("")
    groups = {}
    for m, fields in nets:
        groups.setdefault(dict(fields)["networkName"], []).append(m)
    o.append("/-- networks (modules) that share a `network_name`: a per-string record keyed by the name alone would be shared by them -/")
    o.append("def sameName : List (String × List String) := [%s]" % ", ".join(
        "(%s, [%s])" % (k, ", ".join(lean_str(m) for m in v)) for k, v in groups.items() if len(v) > 1))
    o.append("")
    tpls = templates()
    for i, (text, b) in enumerate(tpls):
        o.append("/-- `%s` -/\ndef template%d : Bytes := %s" % (text, i, lean_bytes(b)))
    o.append("def templateTexts : List String := [%s]" % ", ".join(lean_str(t) for t, _ in tpls))
    o.append("")
    o.append("/-- `ContractAPI._SCRIPT_LOOKUP`: token shape of the text built for each type -/")
    o.append("def scriptLookup : List (String × List Tok) := [\n  %s]" % ",\n  ".join(
        "(%s, [%s])" % (lean_str(t), ", ".join(s)) for t, s in script_lookup()))
    o.append("")
    o.append("/-- `ScriptTools.opcode_to_int` (a dict built from OPCODE_LIST: the last entry for a name wins) -/")
    o.append("def opcodeToInt : List (String × Nat) := [%s]" % ", ".join(
        "(%s, %d)" % (lean_str(k), v) for k, v in st.opcode_to_int.items()))
    s = st.scriptStreamer
    o.append("/-- `ScriptStreamer.const_encoder`: data ↦ opcode (the dict as built: a later pair replaces an earlier one) -/")
    o.append("def constEncoder : List (Bytes × Nat) := [%s]" % ", ".join(
        "(%s, %d)" % (lean_bytes(k), v[0]) for k, v in s.const_encoder.items()))
    o.append("/-- `ScriptStreamer.sized_encoder`: data length ↦ opcode written before the data -/")
    o.append("def sizedEncoder : List (Nat × Nat) := [%s]" % ", ".join(
        "(%d, %d)" % (size, f.__closure__[0].cell_contents[0]) for size, f in s.sized_encoder.items()))
    o.append("/-- constant data opcodes of the decoder: opcode ↦ data pushed -/")
    lookup = st.opcode_to_int
    o.append("def constDecoder : List (Nat × Bytes) := [%s]" % ", ".join(
        "(%d, %s)" % (k, lean_bytes(v)) for k, v in dict((lookup[name], val) for name, val in make_opcode_const_list()).items()))
    o.append("/-- sized data opcodes: opcode ↦ number of bytes that follow -/")
    o.append("def sizedOpcodes : List (Nat × Nat) := [%s]" % ", ".join(
        "(%d, %d)" % kv for kv in dict((lookup[name], size) for name, size in make_opcode_sized_list()).items()))
    o.append("/-- variable data opcodes sorted by name as the streamer does: (opcode, max size, bytes of the length field) -/")
    var = sorted(make_opcode_variable_list(), key=lambda t: t[0])
    o.append("def variableOpcodes : List (Nat × Nat × Nat) := [%s]" % ", ".join(
        "(%d, %d, %d)" % (lookup[name], mx, len(enc(0))) for name, mx, enc, _dec in var))
    for nm in ("OP_1", "OP_16", "OP_CHECKMULTISIG", "OP_RETURN"):
        o.append("def %s : Nat := %d" % (nm.replace("OP_", "op").replace("CHECKMULTISIG", "CheckMultisig").replace("RETURN", "Return"),
                                          st.int_for_opcode(nm)))
    # the curve every network's key classes are built on (create_bitcoinish_network: kwargs.get("generator", secp256k1_generator))
    import importlib as _il
    import pkgutil as _pk
    import pycoin.symbols as _sy
    gens = [_il.import_module("pycoin.symbols." + m.name).network.generator for m in _pk.iter_modules(_sy.__path__)]
    g = gens[0]
    same = all((x.p(), x._a, x._b, x.order(), tuple(x)) == (g.p(), g._a, g._b, g.order(), tuple(g)) for x in gens)
    o.append("/-- parameters of `network.generator` (the same object on every network iff `generatorShared`) -/")
    o.append("def generatorShared : Bool := %s" % ("true" if same else "false"))
    o.append("def genP : Nat := %d\ndef genA : Nat := %d\ndef genB : Nat := %d\ndef genOrder : Nat := %d\ndef genGx : Nat := %d\ndef genGy : Nat := %d"
             % (g.p(), g._a, g._b, g.order(), g[0], g[1]))
    o.append("\nend Pycoin.Gen.Networks\n")
    return {"Networks": "\n".join(o)}
