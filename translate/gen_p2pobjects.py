"""Gen/P2PObjects.lean: module constants of pycoin/message/PeerAddress.py and InvItem.py (read from the imported modules)."""
from pycoin.message import InvItem as I, PeerAddress as P


def generate():
    hdr = P.IP4_HEADER
    if type(hdr) is not bytes or len(hdr) != 12:
        raise ValueError("IP4_HEADER is not 12 bytes")
    types = [I.ITEM_TYPE_TX, I.ITEM_TYPE_BLOCK, I.ITEM_TYPE_MERKLEBLOCK]
    if not all(type(t) is int and 0 <= t < 2 ** 32 for t in types):
        raise ValueError("ITEM_TYPE_* are not small ints")
    out = ["namespace Pycoin.Gen.P2PObjects\n",
           "/-- `IP4_HEADER` -/",
           "def ip4Header : List UInt8 := [%s]\n" % ", ".join(str(x) for x in hdr),
           "/-- `(ITEM_TYPE_TX, ITEM_TYPE_BLOCK, ITEM_TYPE_MERKLEBLOCK)`: what `InvItem.__init__` accepts unless `dont_check` -/",
           "def checkedItemTypes : List Int := [%s]\n" % ", ".join(str(x) for x in types),
           "end Pycoin.Gen.P2PObjects\n"]
    return {"P2PObjects": "\n".join(out)}
