"""Gen/Opcodes.lean: OPCODE_LIST, the BitcoinScriptStreamer configuration as actually built, and the
name tables of BitcoinScriptTools.  Everything is read from the live objects (import + introspection of
the handler closures), nothing is copied."""
from gen import lean_bytes, lean_str


def _closure(f):
    return dict(zip(f.__code__.co_freevars, [c.cell_contents for c in (f.__closure__ or ())]))


def _u8(v):
    if not (isinstance(v, int) and 0 <= v < 256):
        raise SystemExit("gen_opcodes: opcode value %r is not a byte" % (v,))
    return str(v)


def _endian(fmt):
    """(width, bigEndian) of a one-field unsigned struct format"""
    import struct
    w = struct.calcsize(fmt)
    one = struct.pack(fmt, 1)
    if one == b"\x01" + b"\x00" * (w - 1):
        return w, False
    if one == b"\x00" * (w - 1) + b"\x01":
        return w, True
    raise SystemExit("gen_opcodes: struct format %r is not a plain unsigned integer" % fmt)


def generate():
    from pycoin.satoshi import opcodes
    from pycoin.coins.bitcoin.ScriptStreamer import BitcoinScriptStreamer as S
    from pycoin.coins.bitcoin.ScriptTools import BitcoinScriptTools as T
    from pycoin.coins.bitcoin.VM import BitcoinVM
    from pycoin.symbols.btc import network

    if network.script.scriptStreamer is not S or BitcoinVM.ScriptStreamer is not S:
        raise SystemExit("gen_opcodes: the BTC network / VM no longer use BitcoinScriptStreamer")

    out = ["import Pycoin.Py.Bytes", "namespace Pycoin.Gen.Opcodes", "open Pycoin", ""]

    def table(name, ty, rows, doc):
        out.append("/-- %s -/" % doc)
        out.append("def %s : List (%s) := [" % (name, ty))
        out.append(",\n".join("  " + r for r in rows))
        out.append("]\n")

    table("opcodeList", "String × UInt8", ["(%s, %s)" % (lean_str(k), _u8(v)) for k, v in opcodes.OPCODE_LIST],
          "`satoshi/opcodes.py:OPCODE_LIST`, in list order")
    table("opcodeToInt", "String × UInt8", ["(%s, %s)" % (lean_str(k), _u8(v)) for k, v in T.opcode_to_int.items()],
          "`BitcoinScriptTools.opcode_to_int` as built (name → byte)")
    table("intToOpcode", "UInt8 × String", ["(%s, %s)" % (_u8(k), lean_str(v)) for k, v in sorted(T.int_to_opcode.items())],
          "`BitcoinScriptTools.int_to_opcode` as built (byte → the name disassembly prints), sorted by byte")

    # ---- encoders
    table("constEncoder", "Bytes × Bytes", ["(%s, %s)" % (lean_bytes(bytes(k)), lean_bytes(v)) for k, v in S.const_encoder.items()],
          "`const_encoder`: data → the bytes emitted for it")
    sized = []
    for size, enc in S.sized_encoder.items():
        probe = enc(b"")
        if len(probe) != 1 or enc(b"\xaa\xbb") != probe + b"\xaa\xbb":
            raise SystemExit("gen_opcodes: sized encoder for %r is not opcode+data" % size)
        sized.append("(%d, %s)" % (size, _u8(probe[0])))
    table("sizedEncoder", "Nat × UInt8", sized, "`sized_encoder`: data length → opcode byte put in front of the data")
    var = []
    for max_size, opcode, enc_f in S.variable_encoder:
        w = len(enc_f(0))
        one = enc_f(1)
        if one == b"\x01" + b"\x00" * (w - 1):
            be = "false"
        elif one == b"\x00" * (w - 1) + b"\x01":
            be = "true"
        else:
            raise SystemExit("gen_opcodes: length encoder of opcode %r is not a plain unsigned integer" % opcode)
        var.append("(%d, %s, %d, %s)" % (max_size, _u8(opcode), w, be))
    table("variableEncoder", "Nat × UInt8 × Nat × Bool", var,
          "`variable_encoder` in list order: (max_size, opcode, width of the length field, big-endian?)")

    # ---- decoder
    out.append("/-- the three handler kinds of `vm/ScriptStreamer.py` with the values captured in their closures -/")
    out.append("inductive Handler where")
    out.append("  | const (data : Bytes)")
    out.append("  | sized (size : Nat)")
    out.append("  | varlen (width : Nat) (bigEndian : Bool) (minSize : Nat)")
    out.append("  deriving DecidableEq, Repr\n")
    rows = []
    const_values = None
    sized_values = None
    for opcode in sorted(S.decoder, key=lambda k: (-1 if k is None else k)):
        f = S.decoder[opcode]
        c = _closure(f)
        if f.__name__ == "constant_data_opcode_handler":
            rows.append("(%s, .const %s)" % (_u8(opcode), lean_bytes(bytes(c["data"]))))
        elif f.__name__ == "constant_size_opcode_handler":
            rows.append("(%s, .sized %d)" % (_u8(opcode), c["size"]))
            cv = [bytes(x) for x in c["const_values"]]
            if const_values is not None and cv != const_values:
                raise SystemExit("gen_opcodes: sized handlers disagree on const_values")
            const_values = cv
        elif f.__name__ == "f" and "dec_f" in c:
            d = _closure(c["dec_f"])
            w, be = _endian(d["struct_data"])
            if w != d["struct_size"]:
                raise SystemExit("gen_opcodes: struct_size mismatch")
            rows.append("(%s, .varlen %d %s %d)" % (_u8(opcode), w, "true" if be else "false", c["min_size"]))
            sv = list(c["sized_values"])
            if sized_values is not None and sv != sized_values:
                raise SystemExit("gen_opcodes: variable handlers disagree on sized_values")
            sized_values = sv
        else:
            raise SystemExit("gen_opcodes: unknown handler kind %s for opcode %r" % (f.__name__, opcode))
    table("decoder", "UInt8 × Handler", rows, "`BitcoinScriptStreamer.decoder` as built (opcode → handler), sorted by opcode")
    table("sizedConstValues", "Bytes", [lean_bytes(x) for x in (const_values or [])],
          "`const_values` captured by every sized handler (data that has a constant opcode)")
    table("variableSizedValues", "Nat", [str(x) for x in (sized_values or [])],
          "`sized_values` captured by every variable handler (lengths that have a direct push opcode)")
    table("dataOpcodes", "UInt8", [_u8(x) for x in sorted(S.data_opcodes)], "`data_opcodes`, sorted")
    out.append("end Pycoin.Gen.Opcodes\n")
    return {"Opcodes": "\n".join(out)}
