"""Gen/Bech32Syn.lean: the single-error syndromes of the Bech32 checksum and a few bit-set filters over them.

`synRows[j][v-1]` (j = 0..88, v = 1..31) is the syndrome of the error word `[v] + [0]*j` (one wrong symbol `v`
followed by `j` untouched symbols), obtained from the real `bech32_polymod` by linearity:
`bech32_polymod([v] + [0]*j) ^ bech32_polymod([0]*(j+1))`.

`synFilters` is a list of `(m, F)`: `F` has bit `u % m` set for every *key* `u` (a key is 0 or a syndrome of rows 1..88
with its lowest five bits dropped).  Moduli are added (65536, then the primes below it in decreasing order) until no
lookup `(synRows[k][0] ^ synRows[l][d]) >> 5`, 1 <= k < l <= 88, passes all filters — which is possible only if none
of them is a key, i.e. (see Proofs/Bech32Syn.lean, Proofs/Bech32Err4.lean) only if no error of weight 3 or 4 within
89 symbols has syndrome 0.

Nothing here is trusted: Proofs/Bech32Syn.lean re-derives `synRows` from the model of `bech32_polymod` in the Lean
kernel (`synRows_eq`), checks that every filter contains every key (`synFilters_ok`), and the chunk files evaluate the
filters on all 118 668 lookups.  The file only saves the kernel from recomputing the table lazily.
"""
from __future__ import annotations

N_ROWS = 89          # positions 0..88: error words of at most 89 symbols (90 characters minus the separator)
MAX_FILTERS = 12


def _is_prime(n: int) -> bool:
    if n < 2:
        return False
    i = 2
    while i * i <= n:
        if n % i == 0:
            return False
        i += 1
    return True


def tables():
    from pycoin.contrib import bech32m

    pm = bech32m.bech32_polymod
    rows = []
    for j in range(N_ROWS):
        z = pm([0] * (j + 1))
        rows.append([pm([v] + [0] * j) ^ z for v in range(1, 32)])
    keys = {0} | {c >> 5 for r in rows[1:] for c in r}
    lookups = [(rows[k][0] ^ y) >> 5 for k in range(1, N_ROWS) for l in range(k + 1, N_ROWS) for y in rows[l]]
    filters = []
    m = 65536
    while lookups:
        if len(filters) >= MAX_FILTERS:
            raise SystemExit("gen_bech32syn: some weight<=4 error has syndrome 0 with this generator (no filter set separates)")
        residues = {u % m for u in keys}
        filters.append((m, sum(1 << r for r in residues)))
        lookups = [z for z in lookups if z % m in residues]
        m -= 1
        while not _is_prime(m):
            m -= 1
    return rows, filters


def generate():
    rows, filters = tables()
    out = ["namespace Pycoin.Gen.Bech32Syn\n"]
    out.append("set_option maxRecDepth 100000 in")
    out.append("/-- `synRows[j][v-1]`, j = 0..88, v = 1..31: syndrome of the error word `[v] + [0]*j` -/")
    out.append("def synRows : List (List Nat) := [\n  %s]" % ",\n  ".join("[%s]" % ", ".join(map(str, r)) for r in rows))
    out.append("/-- `(m, F)`: bit `u % m` of `F` is set for every key `u` -/")
    out.append("def synFilters : List (Nat × Nat) := [\n  %s]" % ",\n  ".join("(%d, 0x%x)" % (m, f) for m, f in filters))
    out.append("\nend Pycoin.Gen.Bech32Syn\n")
    return {"Bech32Syn": "\n".join(out)}
