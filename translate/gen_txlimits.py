"""Gen/TxLimits.lean: per-coin transaction class facts (network.tx of pycoin.symbols.<x>): MAX_MONEY, MAX_TX_SIZE,
ALLOW_SEGWIT, which class defines `parse` (LTCTx has its own), and whether ids are single or double SHA-256 (probed)."""
import hashlib
import importlib

COINS = ["btc", "ltc", "grs", "bch", "btg"]


def generate():
    out = ["namespace Pycoin.Gen.TxLimits\n"]
    for c in COINS:
        net = importlib.import_module("pycoin.symbols." + c).network
        T = net.tx
        # probed on a transaction without witness data (stripped form = full form); anything else is left to the
        # correspondence check, which compares every id with hashlib
        tx = T(1, [T.TxIn(b"\x11" * 32, 3, b"\x51")], [T.TxOut(7, b"\x52")], 9)
        try:
            single = bytes(tx.hash()) == hashlib.sha256(tx.as_bin()).digest()
        except Exception:  # noqa: BLE001
            single = False
        owner = [k for k in T.__mro__ if "parse" in k.__dict__][0].__name__
        out.append("def %s_maxMoney : Nat := %d" % (c, T.MAX_MONEY))
        out.append("def %s_maxTxSize : Nat := %d" % (c, T.MAX_TX_SIZE))
        out.append("def %s_allowSegwit : Bool := %s" % (c, "true" if T.ALLOW_SEGWIT else "false"))
        out.append("/-- `parse` is the one defined in class %s -/" % owner)
        out.append("def %s_ltcParse : Bool := %s" % (c, "true" if owner == "LTCTx" else "false"))
        out.append("def %s_singleSha : Bool := %s\n" % (c, "true" if single else "false"))
    out.append("end Pycoin.Gen.TxLimits\n")
    return {"TxLimits": "\n".join(out)}
