"""Gen/Formats.lean: the struct format strings used by TxIn/TxOut/Tx/Spendable stream & parse (AST extraction, keyed by
class.method and by what is streamed / assigned), and the STREAMER_FUNCTIONS letter table, each letter classified into a
`Pycoin.Wire.Kind` by *probing* the registered stream/parse functions (width, byte order, truncation length)."""
from __future__ import annotations

import ast
import io
import re
from pathlib import Path


def _lean_chars(s: str) -> str:
    return "[" + ", ".join("'%s'" % c for c in s) + "]"


def _name(s: str) -> str:
    parts = [p for p in re.split(r"[^A-Za-z0-9]+", s) if p and p != "self"]
    if not parts:
        return "x"
    return parts[0] + "".join(p[:1].upper() + p[1:] for p in parts[1:])


def _calls(path: Path, cls: str):
    """yield (method, 'stream'|'parse', fmt, label) for every stream_struct/parse_struct call with a literal format
    inside class `cls` of file `path`"""
    tree = ast.parse(path.read_text())
    for node in tree.body:
        if isinstance(node, ast.ClassDef) and node.name == cls:
            for fn in node.body:
                if not isinstance(fn, ast.FunctionDef):
                    continue
                # parse_struct calls: label = assignment targets when there is one
                targets = {}
                for st in ast.walk(fn):
                    if isinstance(st, ast.Assign) and isinstance(st.value, ast.Call):
                        targets[id(st.value)] = ast.unparse(st.targets[0])
                # ast.walk is breadth-first; order calls by source position
                calls = [c for c in ast.walk(fn) if isinstance(c, ast.Call)]
                calls.sort(key=lambda c: (c.lineno, c.col_offset))
                for c in calls:
                    f = c.func
                    nm = f.id if isinstance(f, ast.Name) else (f.attr if isinstance(f, ast.Attribute) else "")
                    if nm not in ("stream_struct", "parse_struct"):
                        continue
                    if not c.args or not isinstance(c.args[0], ast.Constant) or not isinstance(c.args[0].value, str):
                        continue
                    fmt = c.args[0].value
                    if nm == "stream_struct":
                        label = "_".join(ast.unparse(a) for a in c.args[2:3]) if len(c.args) == 3 else ""
                    else:
                        label = targets.get(id(c), "")
                    yield fn.name, ("stream" if nm == "stream_struct" else "parse"), fmt, label


def classify(parse_f, stream_f):
    """describe one streamer entry by probing it: the Kind whose behaviour it shows on every probe, else `.other`
    (the model then refuses the letter, the table lemmas of Proofs/TxWire.lean fail, and the correspondence check
    produces the failing input).  Total: no probe outcome makes the translator stop."""
    def out(v):
        try:
            f = io.BytesIO()
            stream_f(f, v)
            return f.getvalue()
        except Exception:  # noqa: BLE001
            return None

    def inp(b):
        try:
            return parse_f(io.BytesIO(b))
        except Exception:  # noqa: BLE001
            return None

    def same(a, b):
        return type(a) is type(b) and a == b or (isinstance(a, (bytes, int)) and not isinstance(a, bool) and not isinstance(b, bool) and a == b)

    # bool
    if out(True) == b"\x01" and inp(b"\x02") is True:
        if out(False) == b"\x00" and inp(b"\x00") is False and inp(b"\x01") is True:
            return ".bool"
        return ".other"
    seq = bytes(range(1, 71))
    b = out(seq)
    # fixedBytes n: writes v[:n], reads up to n bytes (silently short)
    if b is not None and 0 < len(b) < 70 and b == seq[: len(b)]:
        n = len(b)
        if (out(b"\x07" * (n - 1)) == b"\x07" * (n - 1) and same(inp(seq), seq[:n]) and same(inp(b"\x01\x02"), b"\x01\x02")):
            return ".fixedBytes %d" % n
        return ".other"
    # compactString
    if b == b"\x46" + seq:
        if (out(b"\x05" * 253) == b"\xfd\xfd\x00" + b"\x05" * 253 and out(b"") == b"\x00"
                and same(inp(b"\x02\x09\x08\x07"), b"\x09\x08") and same(inp(b"\x05\x09"), b"\x09")
                and same(inp(b"\xfd\x03\x00abcd"), b"abc")):
            return ".compactString"
        return ".other"
    if b is not None:
        return ".other"
    one = out(1)
    if one is None:
        return ".other"
    # compactInt
    if one == b"\x01" and out(253) is not None and len(out(253)) > 1:
        enc = {0: b"\x00", 252: b"\xfc", 253: b"\xfd\xfd\x00", 255: b"\xfd\xff\x00", 65535: b"\xfd\xff\xff", 65536: b"\xfe\x00\x00\x01\x00",
               2 ** 32 - 1: b"\xfe\xff\xff\xff\xff", 2 ** 32: b"\xff" + (2 ** 32).to_bytes(8, "little"), 2 ** 64 - 1: b"\xff" * 9}
        if (all(out(v) == e for v, e in enc.items()) and out(-1) is None and out(2 ** 64) is None
                and all(same(inp(e + b"zz"), v) for v, e in enc.items())
                and same(inp(b"\xfd\x01\x00"), 1) and same(inp(b"\xfe\x01\x00\x00\x00"), 1) and inp(b"\xfd\x01") is None and inp(b"") is None):
            return ".compactInt"
        return ".other"
    # fixed-width unsigned integers
    k = len(one)
    sample = bytes(range(1, k + 1))
    if one == b"\x01" + b"\x00" * (k - 1):
        if ((k == 1 or out(0x0102) == b"\x02\x01" + b"\x00" * (k - 2)) and out(256 ** k - 1) == b"\xff" * k and out(256 ** k) is None and out(-1) is None
                and same(inp(sample + b"zz"), int.from_bytes(sample, "little")) and inp(sample[:-1]) is None):
            return ".uintLE %d" % k
        return ".other"
    if one == b"\x00" * (k - 1) + b"\x01":
        if (out(0x0102) == b"\x00" * (k - 2) + b"\x01\x02" and out(256 ** k - 1) == b"\xff" * k and out(256 ** k) is None and out(-1) is None
                and same(inp(sample + b"zz"), int.from_bytes(sample, "big")) and inp(sample[:-1]) is None):
            return ".uintBE %d" % k
        return ".other"
    return ".other"


def _probe_stream(stream_f, v):
    try:
        f = io.BytesIO()
        stream_f(f, v)
        return f.getvalue()
    except Exception:  # noqa: BLE001
        return None


COMPACT_PROBE_VALUES = [0, 1, 252, 253, 254, 255, 256, 65534, 65535, 65536, 65537, 2 ** 32 - 1, 2 ** 32, 2 ** 32 + 1, 2 ** 63, 2 ** 64 - 1]


def generate():
    """never judges the source: whatever the code does is written down (kinds, probe encodings, format strings); the
    Lean side (`decide` over the tables, the table lemmas) and the correspondence check do the judging"""
    import pycoin
    from pycoin.satoshi.satoshi_streamer import SATOSHI_STREAMER
    root = Path(pycoin.__file__).resolve().parent
    out = ["import Pycoin.Model.Wire", "namespace Pycoin.Gen.Formats", "open Pycoin.Wire (Kind)", ""]
    out.append("/-- the letters registered with SATOSHI_STREAMER (pycoin/satoshi/satoshi_streamer.py), each entry classified by probing it -/")
    rows = []
    letters = sorted(set(SATOSHI_STREAMER.parse_lookup) & set(SATOSHI_STREAMER.stream_lookup))
    for c in letters:
        if len(c) != 1 or c in "'\\":
            continue
        rows.append("('%s', %s)" % (c, classify(SATOSHI_STREAMER.parse_lookup[c], SATOSHI_STREAMER.stream_lookup[c])))
    out.append("def letters : List (Char × Kind) := [%s]" % ", ".join(rows))
    out.append("def letterKind (c : Char) : Option Kind := (letters.find? (·.1 = c)).map (·.2)")
    # what the compact-size letter writes for the boundary values (empty list: the call raised)
    probes = []
    sf = SATOSHI_STREAMER.stream_lookup.get("I")
    for v in COMPACT_PROBE_VALUES:
        b = _probe_stream(sf, v) if sf else None
        probes.append("(%d, [%s])" % (v, ", ".join(str(x) for x in (b or b""))))
    out.append("/-- `stream_lookup['I']` on the compact-size boundary values -/")
    out.append("def compactProbes : List (Nat × List UInt8) := [%s]" % ", ".join(probes))
    # the array count parser registered with the streamer: does it read a compact-size integer?
    try:
        cnt = SATOSHI_STREAMER.array_count_parse_f
        is_compact = (cnt(io.BytesIO(b"\x05")) == 5 and cnt(io.BytesIO(b"\xfd\x01\x02")) == 0x0201
                      and cnt(io.BytesIO(b"\xfe\x01\x00\x00\x01")) == 0x01000001)
    except Exception:  # noqa: BLE001
        is_compact = False
    out.append("def arrayCountIsCompactInt : Bool := %s" % ("true" if is_compact else "false"))
    out.append("")
    seen = {}
    for rel, cls, prefix in [
        ("coins/bitcoin/TxIn.py", "TxIn", "txIn"),
        ("coins/bitcoin/TxOut.py", "TxOut", "txOut"),
        ("coins/bitcoin/Spendable.py", "Spendable", "spendable"),
        ("coins/bitcoin/Tx.py", "Tx", "tx"),
        ("coins/litecoin/__init__.py", "LTCTx", "ltcTx"),
        ("coins/groestlcoin/Tx.py", "Tx", "grsTx"),
    ]:
        try:
            calls = list(_calls(root / rel, cls))
        except Exception:  # noqa: BLE001
            calls = []
        for meth, kind, fmt, label in calls:
            nm = prefix + "_" + meth + ("_" + _name(label) if label else "")
            if nm in seen:
                if seen[nm] == fmt:
                    continue
                k = 2
                while "%s_%d" % (nm, k) in seen:
                    k += 1
                nm = "%s_%d" % (nm, k)
            seen[nm] = fmt
            if any(ch in "'\\" or ord(ch) > 126 or ord(ch) < 32 for ch in fmt):
                continue
            out.append("/-- `%s_struct(\"%s\", …)` in %s:%s.%s -/" % (kind, fmt, rel, cls, meth))
            out.append("def %s : List Char := %s" % (nm, _lean_chars(fmt)))
    out.append("\nend Pycoin.Gen.Formats\n")
    return {"Formats": "\n".join(out)}
