"""Gen/Formats.lean: the struct format strings used by TxIn/TxOut/Tx/Spendable stream & parse (AST extraction, keyed by
class.method and by what is streamed / assigned), and the STREAMER_FUNCTIONS letter table, each letter classified into a
`Pycoin.Wire.Kind` by *probing* the registered stream/parse functions (width, byte order, truncation length)."""
from __future__ import annotations

import ast
import io
import re
from pathlib import Path


def _lean_chars(s: str) -> str:
    return "[" + ", ".join("'%s'" % c for c in s) + "]"


def _name(s: str) -> str:
    parts = [p for p in re.split(r"[^A-Za-z0-9]+", s) if p and p != "self"]
    if not parts:
        return "x"
    return parts[0] + "".join(p[:1].upper() + p[1:] for p in parts[1:])


def _calls(path: Path, cls: str):
    """yield (method, 'stream'|'parse', fmt, label) for every stream_struct/parse_struct call with a literal format
    inside class `cls` of file `path`"""
    tree = ast.parse(path.read_text())
    for node in tree.body:
        if isinstance(node, ast.ClassDef) and node.name == cls:
            for fn in node.body:
                if not isinstance(fn, ast.FunctionDef):
                    continue
                # parse_struct calls: label = assignment targets when there is one
                targets = {}
                for st in ast.walk(fn):
                    if isinstance(st, ast.Assign) and isinstance(st.value, ast.Call):
                        targets[id(st.value)] = ast.unparse(st.targets[0])
                # ast.walk is breadth-first; order calls by source position
                calls = [c for c in ast.walk(fn) if isinstance(c, ast.Call)]
                calls.sort(key=lambda c: (c.lineno, c.col_offset))
                for c in calls:
                    f = c.func
                    nm = f.id if isinstance(f, ast.Name) else (f.attr if isinstance(f, ast.Attribute) else "")
                    if nm not in ("stream_struct", "parse_struct"):
                        continue
                    if not c.args or not isinstance(c.args[0], ast.Constant) or not isinstance(c.args[0].value, str):
                        continue
                    fmt = c.args[0].value
                    if nm == "stream_struct":
                        label = "_".join(ast.unparse(a) for a in c.args[2:3]) if len(c.args) == 3 else ""
                    else:
                        label = targets.get(id(c), "")
                    yield fn.name, ("stream" if nm == "stream_struct" else "parse"), fmt, label


def classify(parse_f, stream_f):
    """probe one STREAMER_FUNCTIONS entry; `.other` when its behaviour matches no known kind exactly (the model then
    refuses the letter, the table lemmas fail, and the correspondence check finds the input)"""
    try:
        return _classify(parse_f, stream_f)
    except (AssertionError, Exception):  # noqa: BLE001
        return ".other"


def _classify(parse_f, stream_f):
    def out(v):
        f = io.BytesIO()
        stream_f(f, v)
        return f.getvalue()
    # byte-string letters
    try:
        b = out(bytes(range(1, 71)))
        if b == bytes(range(1, 71))[: len(b)] and 0 < len(b) < 70:
            n = len(b)
            assert out(b"\x07" * (n - 1)) == b"\x07" * (n - 1)  # shorter values are written as they are
            assert parse_f(io.BytesIO(bytes(range(1, 71)))) == bytes(range(1, n + 1))
            assert parse_f(io.BytesIO(b"\x01\x02")) == b"\x01\x02"  # silently short
            return ".fixedBytes %d" % n
        if b == b"\x46" + bytes(range(1, 71)):
            assert out(b"\x05" * 253) == b"\xfd\xfd\x00" + b"\x05" * 253
            assert parse_f(io.BytesIO(b"\x02\x09\x08\x07")) == b"\x09\x08"
            assert parse_f(io.BytesIO(b"\x05\x09")) == b"\x09"  # silently short
            return ".compactString"
    except Exception:
        pass
    # integer letters
    def tryp(b):
        try:
            return parse_f(io.BytesIO(b))
        except Exception:
            return None

    def tryo(v):
        try:
            return out(v)
        except Exception:
            return None
    one = out(1)
    if out(True) == b"\x01" and tryp(b"\x02") is True:
        assert out(False) == b"\x00" and parse_f(io.BytesIO(b"\x00")) is False
        return ".bool"
    if one == b"\x01" and tryo(253) == b"\xfd\xfd\x00":
        assert out(252) == b"\xfc" and out(65535) == b"\xfd\xff\xff" and out(65536) == b"\xfe\x00\x00\x01\x00"
        assert out(2 ** 32) == b"\xff" + (2 ** 32).to_bytes(8, "little") and out(2 ** 32 - 1) == b"\xfe\xff\xff\xff\xff"
        assert parse_f(io.BytesIO(b"\xfd\x01\x00")) == 1  # non-canonical accepted
        return ".compactInt"
    k = len(one)
    if one == b"\x01" + b"\x00" * (k - 1):
        assert k == 1 or out(0x0102) == b"\x02\x01" + b"\x00" * (k - 2)
        assert out(256 ** k - 1) == b"\xff" * k
        assert parse_f(io.BytesIO(bytes(range(1, k + 1)) + b"zz")) == int.from_bytes(bytes(range(1, k + 1)), "little")
        return ".uintLE %d" % k
    if one == b"\x00" * (k - 1) + b"\x01":
        assert out(0x0102) == b"\x00" * (k - 2) + b"\x01\x02"
        assert parse_f(io.BytesIO(bytes(range(1, k + 1)) + b"zz")) == int.from_bytes(bytes(range(1, k + 1)), "big")
        return ".uintBE %d" % k
    return ".other"


def generate():
    import pycoin
    from pycoin.satoshi.satoshi_streamer import STREAMER_FUNCTIONS, SATOSHI_STREAMER
    root = Path(pycoin.__file__).resolve().parent
    out = ["import Pycoin.Model.Wire", "namespace Pycoin.Gen.Formats", "open Pycoin.Wire (Kind)", ""]
    out.append("/-- STREAMER_FUNCTIONS of pycoin/satoshi/satoshi_streamer.py, each entry classified by probing it -/")
    rows = []
    for c in sorted(STREAMER_FUNCTIONS):
        parse_f, stream_f = STREAMER_FUNCTIONS[c]
        assert SATOSHI_STREAMER.parse_lookup[c] is parse_f and SATOSHI_STREAMER.stream_lookup[c] is stream_f
        rows.append("('%s', %s)" % (c, classify(parse_f, stream_f)))
    out.append("def letters : List (Char × Kind) := [%s]" % ", ".join(rows))
    out.append("def letterKind (c : Char) : Option Kind := (letters.find? (·.1 = c)).map (·.2)")
    # the array count parser registered with the streamer
    from pycoin.satoshi.satoshi_int import parse_satoshi_int
    assert SATOSHI_STREAMER.array_count_parse_f is parse_satoshi_int
    out.append("")
    seen = {}
    for rel, cls, prefix in [
        ("coins/bitcoin/TxIn.py", "TxIn", "txIn"),
        ("coins/bitcoin/TxOut.py", "TxOut", "txOut"),
        ("coins/bitcoin/Spendable.py", "Spendable", "spendable"),
        ("coins/bitcoin/Tx.py", "Tx", "tx"),
        ("coins/litecoin/__init__.py", "LTCTx", "ltcTx"),
        ("coins/groestlcoin/Tx.py", "Tx", "grsTx"),
    ]:
        for meth, kind, fmt, label in _calls(root / rel, cls):
            nm = prefix + "_" + meth + ("_" + _name(label) if label else "")
            if nm in seen:
                if seen[nm] != fmt:
                    raise SystemExit("gen_formats: two different formats for " + nm)
                continue
            seen[nm] = fmt
            out.append("/-- `%s_struct(\"%s\", …)` in %s:%s.%s -/" % (kind, fmt, rel, cls, meth))
            out.append("def %s : List Char := %s" % (nm, _lean_chars(fmt)))
    out.append("\nend Pycoin.Gen.Formats\n")
    return {"Formats": "\n".join(out)}
