"""Stand-in for the optional `groestlcoin_hash` package (absent in this sandbox), shared by the translator and the C11
harness so that the Groestlcoin Base58Check decoder is a real decoder with a *different* checksum hash:
getHash(data, n) = sha256(PREFIX + data[:n]).  The Lean model uses the same definition (Gen/PstrKeys.grsPrefix)."""
import hashlib
import sys
import types

PREFIX = b"groestl-stand-in"


def install():
    stub = types.ModuleType("groestlcoin_hash")
    stub.getHash = lambda data, n: hashlib.sha256(PREFIX + bytes(data[:n])).digest()
    sys.modules["groestlcoin_hash"] = stub   # overrides a real installation: the model mirrors the stand-in
    return stub
