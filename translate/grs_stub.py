"""Stand-in for the optional `groestlcoin_hash` package (absent in this sandbox), shared by the translator and the C11
harnesses (C11, and through harness/grsenv.py C05/C08/C09/C10/C18) so that the Groestlcoin Base58Check code is real code
with a *different* checksum hash: getHash(data, n) = sha256(PREFIX + data[:n]).  The Lean model uses the same definition
(Gen/PstrKeys.grsPrefix, Model/Base58Hash.lean).  install() must run before pycoin.symbols.{grs,tgrs,grsrt} are imported:
without a `groestlcoin_hash` module those files disable four parse entry points at import time."""
import hashlib
import sys
import types

PREFIX = b"groestl-stand-in"


def install():
    stub = types.ModuleType("groestlcoin_hash")
    stub.getHash = lambda data, n: hashlib.sha256(PREFIX + bytes(data[:n])).digest()
    stub.STAND_IN = True
    sys.modules["groestlcoin_hash"] = stub   # overrides a real installation: the model mirrors the stand-in
    return stub
