"""Gen/Limits.lean: per-coin MAX_MONEY, MAX_TX_SIZE, SATOSHI_PER_COIN."""
from gen import lean_str


def generate():
    from pycoin.coins.bitcoin.Tx import Tx as BtcTx
    from pycoin.coins.groestlcoin.Tx import Tx as GrsTx
    from pycoin import convention
    out = ["namespace Pycoin.Gen.Limits\n"]
    out.append("def btcMaxMoney : Nat := %d" % BtcTx.MAX_MONEY)
    out.append("def grsMaxMoney : Nat := %d" % GrsTx.MAX_MONEY)
    out.append("def btcMaxTxSize : Nat := %d" % BtcTx.MAX_TX_SIZE)
    out.append("def satoshiPerCoin : Nat := %d" % int(convention.SATOSHI_PER_COIN))
    out.append("def satoshiToMbtc : Nat := %d" % int(convention.SATOSHI_TO_MBTC))
    out.append("\nend Pycoin.Gen.Limits\n")
    return {"Limits": "\n".join(out)}
