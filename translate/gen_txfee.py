"""Gen/TxFee.lean: the fee-per-thousand-bytes constant of pycoin/convention/tx_fee.py (read from the imported module)."""
from pycoin.convention import tx_fee


def generate():
    v = tx_fee.TX_FEE_PER_THOUSAND_BYTES
    if type(v) is not int or not 0 < v < 10 ** 12:
        raise ValueError("TX_FEE_PER_THOUSAND_BYTES is not a positive int: %r" % (v,))
    return {"TxFee": "namespace Pycoin.Gen.TxFee\n\n/-- `TX_FEE_PER_THOUSAND_BYTES` -/\ndef txFeePerThousandBytes : Nat := %d\n\nend Pycoin.Gen.TxFee\n" % v}
