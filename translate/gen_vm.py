"""Gen/VM.lean: what the model of pycoin's script VM (C03, model side) reads from the source tree.

* `BitcoinVM.INSTRUCTION_LOOKUP`: for every byte 0..255 the *identity* of the handler (module-level name found by
  object identity, or the closure contents of the factory that made it) and its `outside_conditional` attribute;
* `BitcoinScriptStreamer.decoder`: per byte the decoder kind with its closure contents; `data_opcodes`;
* `satoshi/flags.py`, `satoshi/errno.py` values; `VM.MAX_*`; `VM_TRUE/VM_FALSE`; the script fragments and opcode
  numbers that `SegwitChecker` / `P2SChecker` compute at import time; the modulus `check_low_der_signature` uses.
"""
import re
from pathlib import Path

from gen import lean_bytes, lean_str

TABLE = Path(__file__).resolve().parent.parent / "lean" / "Pycoin" / "Model" / "VM" / "Table.lean"


def _closure(f):
    if not getattr(f, "__closure__", None):
        return {}
    return {n: c.cell_contents for n, c in zip(f.__code__.co_freevars, f.__closure__)}


def _known_constructors():
    src = TABLE.read_text()
    body = src.split("inductive Handler", 1)[1].split("deriving", 1)[0]
    return set(re.findall(r"\|\s+([A-Za-z0-9_]+)", body))


def handler_ident(f, known):
    from pycoin.satoshi import checksigops, intops, stackops, miscops
    mod = getattr(f, "__module__", "?")
    qn = getattr(f, "__qualname__", "?")
    for short, m in (("sig", checksigops), ("int", intops), ("stack", stackops), ("misc", miscops)):
        for k in sorted(vars(m)):
            if k.startswith("do_OP_") and vars(m)[k] is f:
                name = "%s_%s" % (short, k[len("do_OP_"):])
                if name in known:
                    return ".%s" % name
                return ".unknown %s" % lean_str("%s.%s" % (m.__name__, k))
    if f is miscops.discourage_nops:
        return ".discourageNops"
    cl = _closure(f)
    if mod.endswith("make_instruction_lookup") and qn == "_make_bad_instruction.<locals>.f" and isinstance(cl.get("v"), int):
        return ".badInstruction %d" % cl["v"]
    if mod.endswith("make_instruction_lookup") and qn == "_no_op":
        return ".noOp"
    if mod.endswith("miscops") and qn == "extra_opcodes.<locals>.<lambda>" and f.__code__.co_code == (lambda s: 0).__code__.co_code \
            and f.__code__.co_consts == (lambda s: 0).__code__.co_consts:
        return ".lambda0"
    if mod.endswith("miscops") and qn == "make_bad_opcode.<locals>.bad_opcode" and isinstance(cl.get("err"), int):
        return ".badOpcode %d" % cl["err"]
    if mod.endswith("miscops") and qn == "make_if.<locals>.f" and isinstance(cl.get("reverse_bool"), bool):
        return ".mkIf %s" % ("true" if cl["reverse_bool"] else "false")
    return ".unknown %s" % lean_str("%s.%s" % (mod, qn))


def decoder_ident(f):
    if f is None:
        return ".none"
    qn = f.__qualname__
    cl = _closure(f)
    if qn == "make_const_handler.<locals>.constant_data_opcode_handler":
        return ".const %s" % lean_bytes(bytes(cl["data"]))
    if qn == "make_sized_handler.<locals>.constant_size_opcode_handler":
        cv = sorted(bytes(x) for x in cl["const_values"])
        return ".sized %d [%s]" % (cl["size"], ", ".join(lean_bytes(x) for x in cv))
    if qn == "make_variable_handler.<locals>.f":
        dcl = _closure(cl["dec_f"])
        fmt = dcl.get("struct_data")
        n = {"<B": 1, "<H": 2, "<L": 4, "<I": 4}.get(fmt)
        if n is None or dcl.get("struct_size") != n:
            return ".unknownFmt %s" % lean_str(str(fmt))
        return ".variable %d [%s] %d" % (n, ", ".join(str(x) for x in sorted(cl["sized_values"])), cl["min_size"])
    return ".unknownFmt %s" % lean_str(qn)


def generate():
    from pycoin.coins.bitcoin.VM import BitcoinVM
    from pycoin.coins.bitcoin.SolutionChecker import BitcoinSolutionChecker as SC
    from pycoin.coins.bitcoin import P2SChecker as P2S
    from pycoin.satoshi import flags, errno

    known = _known_constructors()
    L = BitcoinVM.INSTRUCTION_LOOKUP
    st = BitcoinVM.ScriptStreamer
    out = ["import Pycoin.Model.VM.Table", "namespace Pycoin.Gen.VM", "open Pycoin.VM", ""]
    out.append("/-- `BitcoinVM.INSTRUCTION_LOOKUP`: (handler identity, `outside_conditional`) per byte -/")
    out.append("def lookupList : List (Handler × Bool) := [")
    rows = []
    for i in range(256):
        f = L[i] if i < len(L) else None
        oc = bool(getattr(f, "outside_conditional", False))
        rows.append("  (%s, %s)" % (handler_ident(f, known), "true" if oc else "false"))
    out.append(",\n".join(rows) + "]")
    out.append("def lookupLen : Nat := %d" % len(L))
    out.append("")
    out.append("/-- `BitcoinScriptStreamer.decoder.get(byte)` -/")
    out.append("def decoderList : List Decoder := [")
    out.append(",\n".join("  " + decoder_ident(st.decoder.get(i)) for i in range(256)) + "]")
    out.append("/-- `ScriptStreamer.const_encoder` (data -> opcode bytes), `sized_encoder` (size -> opcode), `variable_encoder`")
    out.append("    ((max_size, opcode, number of little-endian length bytes `enc_f` writes), in list order) -/")
    out.append("def constEncoder : List (Bytes × Bytes) := [%s]" % ", ".join(
        "(%s, %s)" % (lean_bytes(bytes(k)), lean_bytes(bytes(v))) for k, v in sorted(st.const_encoder.items())))
    sized = []
    for size, enc in sorted(st.sized_encoder.items()):
        probe = enc(b"\xee" * size)
        assert probe[1:] == b"\xee" * size and len(probe) == size + 1, "sized encoder shape"
        sized.append("(%d, %d)" % (size, probe[0]))
    out.append("def sizedEncoder : List (Nat × Nat) := [%s]" % ", ".join(sized))
    var = []
    for max_size, opcode, enc_f in st.variable_encoder:
        n = len(enc_f(1))
        assert enc_f(1) == (1).to_bytes(n, "little") and enc_f(max_size) == max_size.to_bytes(n, "little"), "variable encoder shape"
        var.append("(%d, %d, %d)" % (max_size, opcode, n))
    out.append("def variableEncoder : List (Nat × Nat × Nat) := [%s]" % ", ".join(var))
    out.append("def dataOpcodes : List Nat := [%s]" % ", ".join(str(x) for x in sorted(x for x in st.data_opcodes if x is not None)))
    out.append("")
    for k in sorted(vars(flags)):
        v = vars(flags)[k]
        if k.isupper() and isinstance(v, int):
            out.append("def %s : Nat := %d" % (k, v))
    out.append("")
    names = sorted((v, k) for k, v in vars(errno).items() if k.isupper() and isinstance(v, int))
    out.append("/-- `satoshi/errno.py` -/")
    out.append("def errnoTable : List (String × Nat) := [%s]" % ", ".join("(%s, %d)" % (lean_str(k), v) for v, k in names))
    for v, k in names:
        out.append("def errno_%s : Nat := %d" % (k, v))
    out.append("")
    for k in ("MAX_SCRIPT_LENGTH", "MAX_BLOB_LENGTH", "MAX_OP_COUNT", "MAX_STACK_SIZE", "MAX_INT_SIZE"):
        out.append("def %s : Nat := %d" % (k, getattr(BitcoinVM, k)))
    out.append("def VM_FALSE : Bytes := %s" % lean_bytes(BitcoinVM.VM_FALSE))
    out.append("def VM_TRUE : Bytes := %s" % lean_bytes(BitcoinVM.VM_TRUE))
    out.append("")
    out.append("def segwitV0Len20Prefix : Bytes := %s" % lean_bytes(SC.V0_len20_prefix))
    out.append("def segwitV0Len20Postfix : Bytes := %s" % lean_bytes(SC.V0_len20_postfix))
    out.append("def segwit_OP_0 : Nat := %d" % SC.OP_0)
    out.append("def segwit_OP_1 : Nat := %d" % SC.OP_1)
    out.append("def segwit_OP_16 : Nat := %d" % SC.OP_16)
    out.append("def p2s_OP_EQUAL : Nat := %d" % P2S.OP_EQUAL)
    out.append("def p2s_OP_HASH160 : Nat := %d" % P2S.OP_HASH160)
    out.append("def defaultFlags : Nat := %d" % SC.DEFAULT_FLAGS)
    out.append("def op1Script : Bytes := %s" % lean_bytes(SC.ScriptTools.compile("OP_1")))
    out.append("def codeseparatorScript : Bytes := %s" % lean_bytes(SC.ScriptTools.compile("OP_CODESEPARATOR")))
    g = BitcoinVM.generator_for_signature_type(1)
    out.append("/-- `generator.p()` and `generator.order()` of `BitcoinVM.generator_for_signature_type` -/")
    out.append("def generatorP : Nat := %d" % g.p())
    out.append("def generatorOrder : Nat := %d" % g.order())
    out.append("\nend Pycoin.Gen.VM\n")
    return {"VM": "\n".join(out)}
