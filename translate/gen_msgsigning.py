"""Gen/MsgSigning.lean: the constants of pycoin/contrib/msg_signing.py that the C17 model and theorems use.

* string literals are read from the AST of the functions that hold them (`signature_template` is a class attribute);
* the header-byte tables are obtained by *running* `_decode_signature` on all 256 first bytes and
  `signature_for_message_hash` on every (recid, compressed) with a stub generator, so that a changed constant in either
  function (27, 35, 4, 0x3, 0x4, 65, 33) changes a table and the theorems over the whole table are re-checked;
* the network names (message magic) come from Gen/Networks.lean (gen_networks.py).
"""
from __future__ import annotations

import ast
import inspect
import textwrap
from binascii import a2b_base64, b2a_base64

from gen import lean_str


def _fn_ast(f):
    return ast.parse(textwrap.dedent(inspect.getsource(f))).body[0]


def _fail(what):
    raise SystemExit("gen_msgsigning: msg_signing.py no longer has the expected shape (%s)" % what)


def _magic_format(cls):
    for node in ast.walk(_fn_ast(cls.msg_magic_for_netcode)):
        if isinstance(node, ast.Return) and isinstance(node.value, ast.BinOp) and isinstance(node.value.op, ast.Mod) \
                and isinstance(node.value.left, ast.Constant) and isinstance(node.value.left.value, str):
            return node.value.left.value
    _fail("msg_magic_for_netcode: return '<fmt>' % name")


def _call_const(fn, attr, owner=None, not_owner=None):
    """first string-constant first argument of a call `<x>.<attr>(const, …)` (optionally `<owner>.<attr>`)"""
    for node in ast.walk(fn):
        if isinstance(node, ast.Call) and isinstance(node.func, ast.Attribute) and node.func.attr == attr and node.args \
                and isinstance(node.args[0], ast.Constant) and isinstance(node.args[0].value, str):
            name = node.func.value.id if isinstance(node.func.value, ast.Name) else None
            if (owner is None or name == owner) and (not_owner is None or name != not_owner):
                return node.args[0].value
    return None


def _end_marker(fn):
    for node in ast.walk(fn):
        if isinstance(node, ast.Compare) and len(node.ops) == 1 and isinstance(node.ops[0], ast.NotIn) \
                and isinstance(node.left, ast.Constant) and isinstance(node.left.value, str):
            return node.left.value
    return None


def _label(fn):
    for node in ast.walk(fn):
        if isinstance(node, ast.Compare) and len(node.ops) == 1 and isinstance(node.ops[0], ast.Eq) \
                and isinstance(node.comparators[0], ast.Constant) and isinstance(node.comparators[0].value, str) \
                and isinstance(node.left, ast.Call) and getattr(node.left.func, "attr", "") == "lower":
            return node.comparators[0].value
    return None


class _StubNet:
    network_name = "Stub"


class _StubGen:
    def __init__(self, recid):
        self.recid = recid

    def sign_with_recid(self, secret_exponent, val):
        return (1, 2, self.recid)


def generate():
    from pycoin.contrib.msg_signing import MessageSigner
    from pycoin.encoding.exceptions import EncodingError

    tpl = MessageSigner.signature_template
    if not isinstance(tpl, str):
        _fail("signature_template")
    magic = _magic_format(MessageSigner)
    ps = _fn_ast(MessageSigner.parse_sections)
    needle = _call_const(ps, "split", not_owner="re")
    regex = _call_const(ps, "split", owner="re")
    psm = _fn_ast(MessageSigner.parse_signed_message)
    end_marker = _end_marker(psm)
    end_prefix = _call_const(psm, "startswith")
    label = _label(psm)
    if None in (needle, regex, end_marker, end_prefix, label):
        _fail("parse_sections / parse_signed_message literals")

    ms = MessageSigner(_StubNet(), _StubGen(0))
    # accepted decoded lengths
    lens = []
    for k in range(0, 200):
        raw = bytes([27]) + bytes(k - 1) if k else b""
        try:
            ms._decode_signature(b2a_base64(raw).decode())
            lens.append(k)
        except EncodingError:
            pass
        except Exception:  # noqa: BLE001
            pass
    if len(lens) != 1:
        _fail("_decode_signature accepts lengths %r" % lens)
    sig_len = lens[0]
    dec = []
    r0, s0 = 0x0102030405060708090A0B0C0D0E0F101112131415161718191A1B1C1D1E1F20, 0x2122232425262728292A2B2C2D2E2F303132333435363738393A3B3C3D3E3F40
    for first in range(256):
        raw = bytes([first]) + r0.to_bytes(32, "big") + s0.to_bytes(32, "big")
        raw = raw[:sig_len] + bytes(max(0, sig_len - len(raw)))
        try:
            comp, recid, r, s = ms._decode_signature(b2a_base64(raw).decode())
            if (r, s) != (r0, s0):
                _fail("_decode_signature does not read r, s as two 32-byte big-endian fields after the first byte")
            dec.append("(some (%s, %d))" % ("true" if comp else "false", recid))
        except EncodingError:
            dec.append("none")
    enc = []
    for recid in range(4):
        for comp in (False, True):
            raw = a2b_base64(MessageSigner(_StubNet(), _StubGen(recid)).signature_for_message_hash(1, 1, comp))
            if len(raw) != 65 or raw[1:] != (1).to_bytes(32, "big") + (2).to_bytes(32, "big"):
                _fail("signature_for_message_hash layout")
            enc.append("(%d, %s, %d)" % (recid, "true" if comp else "false", raw[0]))

    out = ["namespace Pycoin.Gen.MsgSigning\n"]
    out.append("/-- `MessageSigner.signature_template` -/")
    out.append("def signatureTemplate : String := %s" % lean_str(tpl).replace("\n", "\\n"))
    out.append("/-- the format string of `msg_magic_for_netcode` -/")
    out.append("def magicFormat : String := %s" % lean_str(magic).replace("\n", "\\n"))
    out.append("/-- `msg_in.split(<needle>, 1)` in `parse_sections` -/")
    out.append("def sectionNeedle : String := %s" % lean_str(needle).replace("\n", "\\n"))
    out.append("/-- the pattern of `re.split` in `parse_sections` -/")
    out.append("def sigMarkerRegex : String := %s" % lean_str(regex).replace("\n", "\\n"))
    out.append("/-- `<endMarker> not in hdr[-1]` and `line.startswith(<endPrefix>)` in `parse_signed_message` -/")
    out.append("def endMarker : String := %s" % lean_str(end_marker))
    out.append("def endPrefix : String := %s" % lean_str(end_prefix))
    out.append("/-- `label.lower() == <addressLabel>` -/")
    out.append("def addressLabel : String := %s" % lean_str(label))
    out.append("/-- the only decoded length `_decode_signature` accepts -/")
    out.append("def sigLength : Nat := %d" % sig_len)
    out.append("/-- `_decode_signature` run on every first byte 0..255: `some (is_compressed, recid)` or `none` = EncodingError -/")
    out.append("def headerDecode : List (Option (Bool × Nat)) := [%s]" % ", ".join(dec))
    out.append("/-- `signature_for_message_hash` run with a stub generator: (recid, is_compressed, first byte produced) -/")
    out.append("def headerEncode : List (Nat × Bool × Nat) := [%s]" % ", ".join(enc))
    out.append("\nend Pycoin.Gen.MsgSigning\n")
    return {"MsgSigning": "\n".join(out)}
