"""Gen/Sign.lean: constants the signer model uses, read from the working tree:
the default placeholder signature (`generate_default_placeholder_signature`), `DEFAULT_PLACEHOLDER_SIGNATURE`,
`DEFAULT_SIGNATURE_TYPE`, the SIGHASH_* constants, the default validation flags of `Solver.sign`'s skip test, and the
list of network symbols whose Solver class forces the fork-id bit (found by probing `Solver.solve` with a stub, not by
name)."""
import importlib
import pkgutil


def _bytes(b):
    return "[" + ", ".join(str(x) for x in b) + "]"


def _forces_forkid(net):
    """call the network's Solver.solve with the base-class solve stubbed out and see which hash type arrives"""
    from pycoin.coins.bitcoin.Solver import BitcoinSolver, Solver
    S = net.tx.Solver
    seen = {}

    class Probe(S):
        def __init__(self):
            pass

    def stub(self, hash160_lookup, tx_in_idx, hash_type=None, **kwargs):
        seen["ht"] = hash_type
        return b""

    saved = Solver.solve
    try:
        Solver.solve = stub
        res = []
        for ht in (None, 1, 0x82):
            seen.clear()
            Probe().solve({}, 0, hash_type=ht)
            res.append(seen.get("ht"))
    finally:
        Solver.solve = saved
    if res == [None, 1, 0x82]:
        return False
    if res == [0x41, 0x41, 0xC2]:
        return True
    raise SystemExit("gen_sign: Solver.solve of %s maps hash types (None, 1, 0x82) to %r: neither plain nor fork-id" % (net.symbol, res))


def generate():
    from pycoin.coins.bitcoin import Solver as S
    from pycoin.solve import some_solvers
    from pycoin.satoshi import flags
    from pycoin.coins.bitcoin.SolutionChecker import BitcoinSolutionChecker
    import pycoin.symbols

    ph = S.generate_default_placeholder_signature(None)
    out = ["namespace Pycoin.Gen.Sign\n"]
    out.append("/-- `generate_default_placeholder_signature(generator)` -/")
    out.append("def defaultPlaceholder : List UInt8 := %s" % _bytes(ph))
    out.append("/-- `some_solvers.DEFAULT_PLACEHOLDER_SIGNATURE` -/")
    out.append("def solverDefaultPlaceholder : List UInt8 := %s" % _bytes(some_solvers.DEFAULT_PLACEHOLDER_SIGNATURE))
    out.append("def defaultSignatureType : Nat := %d" % some_solvers.DEFAULT_SIGNATURE_TYPE)
    for k in ("SIGHASH_ALL", "SIGHASH_NONE", "SIGHASH_SINGLE", "SIGHASH_ANYONECANPAY", "SIGHASH_FORKID"):
        out.append("def %s : Nat := %d" % (k, getattr(flags, k)))
    out.append("/-- `BitcoinSolutionChecker.DEFAULT_FLAGS` (what `Solver.sign` validates with before deciding to skip an input) -/")
    out.append("def defaultFlags : Nat := %d" % BitcoinSolutionChecker.DEFAULT_FLAGS)
    for k in sorted(x for x in dir(flags) if x.startswith("VERIFY_")):
        out.append("def %s : Nat := %d" % (k, getattr(flags, k)))
    fork, plain = [], []
    for m in sorted(x.name for x in pkgutil.iter_modules(pycoin.symbols.__path__)):
        try:
            net = importlib.import_module("pycoin.symbols." + m).network
        except Exception:  # noqa: BLE001
            continue
        if not hasattr(net, "tx") or not hasattr(net.tx, "Solver"):
            continue
        (fork if _forces_forkid(net) else plain).append(m)
    out.append("/-- network modules under pycoin/symbols whose `Solver.solve` ors SIGHASH_FORKID into the hash type -/")
    out.append("def forkidCoins : List String := [%s]" % ", ".join('"%s"' % c for c in fork))
    out.append("def plainCoins : List String := [%s]" % ", ".join('"%s"' % c for c in plain))
    out.append("\nend Pycoin.Gen.Sign\n")
    return {"Sign": "\n".join(out)}
