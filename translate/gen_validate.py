"""Gen/Validate.lean: what `Tx.check_solution` of each modelled transaction class runs the interpreter with.

* per class (network.tx of pycoin.symbols.<x>): `SolutionChecker.DEFAULT_FLAGS`, the flag word `check_solution(tx_context)` uses
  when called without flags (read from the class; cross-checked by calling `puzzle_and_solution_iterator` with a stub VM
  and looking at the flags the first VM is built with);
* which exception classes `Tx.is_solution_ok` turns into `False` (AST of pycoin/coins/Tx.py): the model maps exactly
  `ScriptError` to a verdict and lets everything else escape.
"""
from __future__ import annotations

import ast
import importlib
from pathlib import Path

COINS = ["btc", "ltc", "grs", "bch", "btg"]


def _caught_in_is_solution_ok(path: Path):
    tree = ast.parse(path.read_text())
    for node in ast.walk(tree):
        if isinstance(node, ast.FunctionDef) and node.name == "is_solution_ok":
            names = []
            for h in ast.walk(node):
                if isinstance(h, ast.ExceptHandler):
                    if h.type is None:
                        names.append("*")
                    elif isinstance(h.type, ast.Tuple):
                        names += [ast.unparse(e) for e in h.type.elts]
                    else:
                        names.append(ast.unparse(h.type))
            return sorted(names)
    raise SystemExit("gen_validate: is_solution_ok not found in %s" % path)


def generate():
    import pycoin
    from pycoin.satoshi.flags import VERIFY_MINIMALIF, VERIFY_WITNESS_PUBKEYTYPE
    root = Path(pycoin.__file__).resolve().parent
    out = ["namespace Pycoin.Gen.Validate", ""]
    caught = _caught_in_is_solution_ok(root / "coins/Tx.py")
    out.append("/-- the exception classes `Tx.is_solution_ok` turns into `False` (pycoin/coins/Tx.py) -/")
    out.append("def isSolutionOkCatches : List String := [%s]" % ", ".join('"%s"' % c for c in caught))
    out.append("")
    for c in COINS:
        net = importlib.import_module("pycoin.symbols." + c).network
        T = net.tx
        SC = T.SolutionChecker
        flags = SC.DEFAULT_FLAGS
        # cross-check: the flags the first VM of check_solution(tx_context) is built with
        seen = []

        class Stop(Exception):
            pass

        class StubVM:
            ScriptStreamer = SC.VM.ScriptStreamer

            def __init__(self, script, tx_context, sighash_f, flags, initial_stack=None):
                seen.append(flags)
                raise Stop()

        tx = T(1, [T.TxIn(b"\x11" * 32, 0, b"\x51", 0)], [T.TxOut(1, b"\x51")], 0)
        tx.set_unspents([T.TxOut(5, b"\x51")])
        sc = SC(tx)
        saved = SC.VM
        try:
            SC.VM = StubVM
            try:
                sc.check_solution(sc.tx_context_for_idx(0))
            except Stop:
                pass
        finally:
            SC.VM = saved
        want = flags & ~(VERIFY_MINIMALIF | VERIFY_WITNESS_PUBKEYTYPE)
        if seen[:1] != [want]:
            raise SystemExit("gen_validate: %s check_solution built its first VM with flags %r, DEFAULT_FLAGS says %r" % (c, seen[:1], want))
        out.append("/-- %s: `%s.DEFAULT_FLAGS` -/" % (c, SC.__name__))
        out.append("def %s_defaultFlags : Nat := %d" % (c, flags))
    out.append("")
    out.append("end Pycoin.Gen.Validate\n")
    return {"Validate": "\n".join(out)}
