"""Gen/Messages.lean: the p2p message layouts (`STANDARD_P2P_MESSAGES` through `standard_messages()`), every codec letter
registered by `standard_parsing_functions` (each `(parse_f, stream_f)` pair classified by *probing* the live functions),
the alert sub-layout and whether its post-processor tolerates an undecodable payload, which messages have a
post-processor, and the struct formats of InvItem / PeerAddress / Block (AST extraction)."""
from __future__ import annotations

import ast
import io
import struct
from pathlib import Path

from gen_formats import _lean_chars, _calls, classify


def _lean_str(s: str) -> str:
    return _lean_chars(s) if s else "[]"


def _out(stream_f, v):
    f = io.BytesIO()
    stream_f(f, v)
    return f.getvalue()


def _raises(fn, *a):
    try:
        fn(*a)
    except Exception as e:  # noqa: BLE001
        return type(e).__name__
    return None


def classify_extra(c, parse_f, stream_f, net):
    """one entry of `more_parsing`"""
    from pycoin.message.PeerAddress import PeerAddress
    from pycoin.message.InvItem import InvItem
    Block, Tx = net.block, net.tx

    def is_cm(f, cls, name):
        return getattr(f, "__self__", None) is cls and getattr(f, "__func__", None) is getattr(cls, name).__func__

    if is_cm(parse_f, PeerAddress, "parse"):
        pa = PeerAddress(0x0102030405060708, bytes(range(16)), 0x0A0B)
        if _out(stream_f, pa) == struct.pack("<Q", pa.services) + pa.ip_bin + struct.pack("!H", pa.port):
            return ".peerAddress"
    if is_cm(parse_f, InvItem, "parse"):
        it = InvItem(2, bytes(range(32)))
        if _out(stream_f, it) == struct.pack("<L", 2) + bytes(range(32)):
            return ".invItem"
    if is_cm(parse_f, Tx, "parse"):
        tx = Tx(1, [Tx.TxIn(b"\x07" * 32, 1, b"\x51")], [Tx.TxOut(5, b"\x52")])
        if _out(stream_f, tx) == tx.as_bin() and _raises(stream_f, io.BytesIO(), object()) == "AssertionError":
            return ".tx"
    if is_cm(parse_f, Block, "parse") or is_cm(parse_f, Block, "parse_as_header"):
        blk = Block(1, b"\x01" * 32, b"\x02" * 32, 3, 4, 5)
        hdr = struct.pack("<L", 1) + b"\x01" * 32 + b"\x02" * 32 + struct.pack("<LLL", 3, 4, 5)
        if _out(stream_f, blk) == hdr and _raises(stream_f, io.BytesIO(), object()) == "AssertionError":
            # a header-only Block streams the same through both wrappers; the parser tells them apart
            return ".block" if is_cm(parse_f, Block, "parse") else ".header"
    # optional boolean
    try:
        if _out(stream_f, None) == b"" and _out(stream_f, True) == b"\x01" and _out(stream_f, False) == b"\x00":
            p = [parse_f(io.BytesIO(b)) for b in (b"", b"\x00", b"\x01", b"\x02")]
            if p[0] is None and p[1] is False and p[2] is True and p[3] is True:
                return ".optBool"
            if p[0] is False and p[1] is True and p[2] is True and p[3] is True:
                return ".optBoolAnyByte"
    except Exception:  # noqa: BLE001
        pass
    # 6-byte integer
    if _raises(stream_f, io.BytesIO(), 1) == "TypeError" and _raises(parse_f, io.BytesIO(b"\x01" * 8)) == "error" and _raises(parse_f, io.BytesIO(b"")) == "error":
        return ".int6Raises"
    try:
        if (_out(stream_f, 0x060504030201) == bytes([1, 2, 3, 4, 5, 6]) and _out(stream_f, 2 ** 48 - 1) == b"\xff" * 6
                and parse_f(io.BytesIO(bytes([1, 2, 3, 4, 5, 6, 0xEE]))) == 0x060504030201
                and _raises(parse_f, io.BytesIO(b"\x01" * 5)) == "error" and _raises(stream_f, io.BytesIO(), -1) == "error"
                and _raises(stream_f, io.BytesIO(), 2 ** 64) == "error"):
            if _raises(stream_f, io.BytesIO(), 2 ** 48) == "error" and _raises(stream_f, io.BytesIO(), 2 ** 64 - 1) == "error":
                return ".int6"
            if _out(stream_f, 2 ** 48 + 5) == bytes([5, 0, 0, 0, 0, 0]):
                return ".int6Trunc"
    except Exception:  # noqa: BLE001
        pass
    # plain struct / satoshi codecs
    try:
        return ".prim (%s)" % classify(parse_f, stream_f)
    except (SystemExit, Exception):  # noqa: BLE001
        return ".unknown"


def _struct_pack_formats(path: Path, cls: str, meth: str):
    """the literal formats of `struct.pack(fmt, …)` calls inside cls.meth, in source order"""
    tree = ast.parse(path.read_text())
    for node in tree.body:
        if isinstance(node, ast.ClassDef) and node.name == cls:
            for fn in node.body:
                if isinstance(fn, ast.FunctionDef) and fn.name == meth:
                    calls = [c for c in ast.walk(fn) if isinstance(c, ast.Call) and isinstance(c.func, ast.Attribute)
                             and c.func.attr == "pack" and c.args and isinstance(c.args[0], ast.Constant)]
                    calls.sort(key=lambda c: (c.lineno, c.col_offset))
                    return [c.args[0].value for c in calls]
    return []


def _btg_reserved(path: Path) -> str:
    tree = ast.parse(path.read_text())
    rd = wr = 0
    for fn in ast.walk(tree):
        if isinstance(fn, ast.FunctionDef) and fn.name == "parse_as_header":
            for c in ast.walk(fn):
                if (isinstance(c, ast.Call) and isinstance(c.func, ast.Attribute) and c.func.attr == "read" and c.args
                        and isinstance(c.args[0], ast.Constant) and isinstance(c.args[0].value, int)):
                    rd = c.args[0].value
        if isinstance(fn, ast.FunctionDef) and fn.name == "stream_header":
            for c in ast.walk(fn):
                if (isinstance(c, ast.BinOp) and isinstance(c.op, ast.Mult) and isinstance(c.left, ast.Constant)
                        and c.left.value == b"\0" and isinstance(c.right, ast.Constant)):
                    wr = c.right.value
    return "(%d, %d)" % (rd, wr)


def _networks_table() -> str:
    """every registered network: which transaction class family and which header layout its message codecs use"""
    import io as _io
    from pycoin.networks.registry import network_codes, network_for_netcode
    from pycoin.block import Block as BaseBlock
    from pycoin.coins.bitcoin.Tx import Tx as BtcTx
    from pycoin.coins.litecoin import LTCTx
    from pycoin.coins.bgold.Block import Block as BtgBlock
    rows = []
    for code in sorted(network_codes()):
        try:
            n = network_for_netcode(code)
        except Exception:  # noqa: BLE001
            continue
        tx, blk = n.tx, n.block
        if tx.parse.__func__ is LTCTx.parse.__func__:
            coin = ".ltc"
        elif tx.parse.__func__ is BtcTx.parse.__func__:
            mod = tx.__mro__[0].__module__ if tx.__mro__[0].__module__.startswith("pycoin.coins.") else tx.__mro__[1].__module__
            coin = {"groestlcoin": ".grs", "bcash": ".bch", "bgold": ".btg"}.get(mod.split(".")[2], ".btc")
        else:
            continue  # a transaction class the models do not know: not in the table
        pah = blk.parse_as_header.__func__
        if pah is BaseBlock.parse_as_header.__func__:
            hdr = "false"
        elif pah is BtgBlock.parse_as_header.__func__:
            hdr = "true"
        else:
            continue
        if blk.parse.__func__ is not BaseBlock.parse.__func__ or blk.stream is not BaseBlock.stream and blk.stream.__qualname__ != "Block.stream":
            continue
        rows.append("(%s, %s, %s)" % (_lean_str(code.lower()), coin, hdr))
    return ("/-- netcode (lower case) ↦ (transaction class family, Bitcoin-Gold header layout?) by identity of the classes' parse functions -/\n"
            "def networks : List (List Char × Pycoin.Coin × Bool) := [\n  %s]" % ",\n  ".join(rows))


def _streamer_state() -> str:
    """mutable containers declared on the Streamer CLASS (shared by every instance, i.e. by every network)"""
    from pycoin.serialize.streamer import Streamer
    names = sorted(k for k, v in vars(Streamer).items() if isinstance(v, (dict, list, set, bytearray)))
    return ("/-- mutable class-level attributes of `Streamer` (state shared by the streamers of all networks) -/\n"
            "def streamerClassState : List (List Char) := [%s]" % ", ".join(_lean_str(x) for x in names))


def _hasattr_names(path: Path, cls: str):
    res = {}
    tree = ast.parse(path.read_text())
    for node in tree.body:
        if isinstance(node, ast.ClassDef) and node.name == cls:
            for fn in node.body:
                if not isinstance(fn, ast.FunctionDef):
                    continue
                for c in ast.walk(fn):
                    if (isinstance(c, ast.Call) and getattr(c.func, "id", "") == "hasattr" and len(c.args) == 2
                            and isinstance(c.args[1], ast.Constant) and isinstance(c.args[1].value, str)):
                        res.setdefault(fn.name, c.args[1].value)
                    if fn.name == "hash" and isinstance(c, ast.Assign) and isinstance(c.targets[0], ast.Attribute):
                        a = c.targets[0].attr
                        if a.startswith("__") and not a.endswith("__"):
                            a = "_" + cls.lstrip("_") + a
                        res["@stored"] = a
    return res


def _pack_count_letter(path: Path):
    """the literal passed to `streamer.stream_struct(<lit>, f, len(kwargs[name]))` in pack_from_data"""
    tree = ast.parse(path.read_text())
    for fn in ast.walk(tree):
        if isinstance(fn, ast.FunctionDef) and fn.name == "pack_from_data":
            for c in ast.walk(fn):
                if (isinstance(c, ast.Call) and isinstance(c.func, ast.Attribute) and c.func.attr == "stream_struct"
                        and c.args and isinstance(c.args[0], ast.Constant) and len(c.args) == 3
                        and isinstance(c.args[2], ast.Call) and getattr(c.args[2].func, "id", "") == "len"):
                    return c.args[0].value
    raise SystemExit("gen_messages: array count letter not found in pack_from_data")


def generate():
    import pycoin
    from pycoin.symbols.btc import network as net
    from pycoin.message import make_parser_and_packer as mpp
    from pycoin.satoshi.satoshi_streamer import STREAMER_FUNCTIONS
    from pycoin.satoshi.satoshi_int import parse_satoshi_int
    root = Path(pycoin.__file__).resolve().parent

    out = ["import Pycoin.Model.MsgCodec", "import Pycoin.Model.Tx", "namespace Pycoin.Gen.Messages", "open Pycoin.Msg (Codec)", ""]
    msgs = mpp.standard_messages()
    out.append("/-- `standard_messages()` (STANDARD_P2P_MESSAGES): message name ↦ layout string, verbatim, in dict order -/")
    out.append("def layouts : List (List Char × List Char) := [\n  %s]" % ",\n  ".join(
        "(%s, %s)" % (_lean_str(k), _lean_str(v)) for k, v in msgs.items()))
    out.append("")

    items = mpp.standard_parsing_functions(net.block, net.tx)
    streamer = mpp.standard_streamer(items)
    assert streamer.array_count_parse_f is parse_satoshi_int
    rows = []
    for c in sorted(streamer.parse_lookup):
        parse_f, stream_f = streamer.parse_lookup[c], streamer.stream_lookup[c]
        if c in STREAMER_FUNCTIONS and STREAMER_FUNCTIONS[c] == (parse_f, stream_f):
            try:
                rows.append("('%s', .prim (%s))" % (c, classify(parse_f, stream_f)))
            except (SystemExit, Exception):  # noqa: BLE001  (a probe no longer matches: no law for this letter)
                rows.append("('%s', .unknown)" % c)
        else:
            rows.append("('%s', %s)" % (c, classify_extra(c, parse_f, stream_f, net)))
    out.append("/-- every letter of `standard_streamer(standard_parsing_functions(Block, Tx))`, each pair classified by probing -/")
    out.append("def letters : List (Char × Codec) := [\n  %s]" % ",\n  ".join(rows))
    out.append("")

    posts = mpp.standard_message_post_unpacks(streamer)
    out.append("/-- messages with a post-processor (`standard_message_post_unpacks`) -/")
    out.append("def postUnpacks : List (List Char) := [%s]" % ", ".join(_lean_str(k) for k in sorted(posts)))
    # alert sub-layout: the literal inside make_post_unpack_alert
    tree = ast.parse((root / "message" / "make_parser_and_packer.py").read_text())
    alert = None
    for fn in ast.walk(tree):
        if isinstance(fn, ast.FunctionDef) and fn.name == "make_post_unpack_alert":
            for st in ast.walk(fn):
                if isinstance(st, ast.Assign) and getattr(st.targets[0], "id", "") == "the_struct":
                    alert = ast.literal_eval(st.value)
    if alert is None:
        raise SystemExit("gen_messages: alert sub-layout not found")
    out.append("/-- `the_struct` of make_post_unpack_alert -/")
    out.append("def alertLayout : List Char := %s" % _lean_str(alert))
    tol = "false"
    if "alert" in posts:
        try:
            d = posts["alert"]({"payload": b"\x01"}, io.BytesIO(b""))
            if d.get("alert_info", 0) is None:
                tol = "true"
        except Exception:  # noqa: BLE001
            tol = "false"
    out.append("/-- does post_unpack_alert turn an undecodable payload into `alert_info = None` (instead of raising)? probed -/")
    out.append("def alertTolerant : Bool := %s" % tol)
    out.append("/-- the literal of `streamer.stream_struct(\"I\", f, len(kwargs[name]))` in pack_from_data -/")
    out.append("def packCountLetter : List Char := %s" % _lean_str(_pack_count_letter(root / "message" / "make_parser_and_packer.py")))
    out.append("")

    seen = {}
    for rel, cls, prefix in [("message/InvItem.py", "InvItem", "invItem"), ("message/PeerAddress.py", "PeerAddress", "peerAddress"),
                             ("block.py", "Block", "block"), ("coins/bgold/Block.py", "Block", "btgBlock")]:
        for meth, kind, fmt, label in _calls(root / rel, cls):
            nm = "%s_%s_%s" % (prefix, meth.strip("_"), kind)
            # names depend on where the call is, never on the format it passes (a changed format must reach the model)
            if prefix == "block" and meth in ("parse", "_stream_transactions"):
                nm += "_count"
            if nm in seen:
                if seen[nm] == fmt:
                    continue
                k = 2
                while "%s_%d" % (nm, k) in seen:
                    k += 1
                nm = "%s_%d" % (nm, k)
            seen[nm] = fmt
            out.append("/-- `%s_struct(\"%s\", …)` in %s:%s.%s -/" % (kind, fmt, rel, cls, meth))
            out.append("def %s : List Char := %s" % (nm, _lean_str(fmt)))
    # Bitcoin Gold header: the reserved area skipped by parse_as_header (`f.read(N)`) and written by stream_header (`b"\\0" * N`)
    out.append("/-- length of the reserved area of the Bitcoin Gold header: (read by parse_as_header, written by stream_header) -/")
    out.append("def btgReserved : Nat × Nat := %s" % _btg_reserved(root / "coins" / "bgold" / "Block.py"))
    out.append("/-- `FORK_BLOCK` of the Bitcoin Gold Block class -/")
    from pycoin.coins.bgold.Block import Block as BtgBlock
    out.append("def btgForkBlock : Nat := %d" % BtgBlock.FORK_BLOCK)
    out.append("")
    out.append(_networks_table())
    out.append(_streamer_state())
    # the header-hash cache of Block: which attribute names hash() and set_nonce() test with hasattr (string literals are
    # NOT name-mangled), and the mangled name under which `self.__hash = …` really stores the value
    names = _hasattr_names(root / "block.py", "Block")
    out.append("/-- `hasattr(self, <literal>)` in Block.hash -/")
    out.append("def block_hash_hasattr : List Char := %s" % _lean_str(names.get("hash", "")))
    out.append("/-- `hasattr(self, <literal>)` in Block.set_nonce -/")
    out.append("def block_set_nonce_hasattr : List Char := %s" % _lean_str(names.get("set_nonce", "")))
    out.append("/-- the instance attribute `self.__hash = …` creates inside `class Block` (name mangling) -/")
    out.append("def block_hash_attr : List Char := %s" % _lean_str(names.get("@stored", "")))
    fm = _struct_pack_formats(root / "message" / "PeerAddress.py", "PeerAddress", "stream")
    out.append("/-- the `struct.pack` formats of PeerAddress.stream, in order (the raw `ip_bin` is written between them) -/")
    out.append("def peerAddress_stream_packs : List (List Char) := [%s]" % ", ".join(_lean_str(x) for x in fm))
    out.append("\nend Pycoin.Gen.Messages\n")
    return {"Messages": "\n".join(out)}
