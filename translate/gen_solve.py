"""Gen/Solve.lean: the tables of the solver's symbolic machinery, read from the working tree:

* the opcodes `make_traceback_f` swaps for symbolic versions (`MY_OPCODES` of the closure: opcode number, which
  `make_op_*` product sits there, its `stack_size` attribute);
* the solvers registered with `BitcoinConstraintSolver`, in registration (= matching) order, each identified by its pattern;
* the validation flags the symbolic run uses (`check_solution` is called without flags).

A function or pattern the translator does not recognise is emitted as `unknown`: the model refuses to run it."""


def _closure(f):
    return dict(zip(f.__code__.co_freevars, [c.cell_contents for c in (f.__closure__ or ())]))


KNOWN_OPS = {"my_op_hash160": "hash160", "my_op_equal": "equal", "my_op_equalverify": "equalverify",
             "my_op_checksig": "checksig", "my_op_checkmultisig": "checkmultisig"}


def _pat(p):
    from pycoin.solve.ConstraintSolver import CONSTANT, VAR, LIST
    if isinstance(p, tuple):
        return "(" + " ".join([p[0]] + [_pat(x) for x in p[1:]]) + ")"
    for cls, tag in ((CONSTANT, "C"), (VAR, "V"), (LIST, "L")):
        if type(p) is cls:
            return tag
    return "?"


# the three pattern shapes the model implements (Model/ConstraintSolver.lean: `Solver.matches`)
KNOWN_PATTERNS = {
    ("hash_lookup_solver", "(EQUAL C (HASH160 V))"): "hashLookup",
    ("constant_equality_solver", "(EQUAL V C)"): "constantEquality",
    ("signing_solver", "(SIGNATURES_CORRECT L L C)"): "signing",
}


def generate():
    from pycoin.solve.constraints import make_traceback_f
    from pycoin.coins.bitcoin.Solver import BitcoinConstraintSolver
    from pycoin.coins.bitcoin.ScriptTools import BitcoinScriptTools
    from pycoin.coins.bitcoin.SolutionChecker import BitcoinSolutionChecker

    tf = make_traceback_f([], BitcoinScriptTools.int_for_opcode, lambda s: s)
    my = _closure(tf)["MY_OPCODES"]
    out = ["namespace Pycoin.Gen.Solve\n"]
    out.append("/-- which product of `constraints.make_op_*` -/")
    out.append("inductive SymOp | hash160 | equal | equalverify | checksig | checkmultisig | unknown (name : String)")
    out.append("  deriving DecidableEq, Repr\n")
    out.append("/-- `MY_OPCODES` of `make_traceback_f`: `(opcode, function, stack_size attribute or 0)` -/")
    rows = []
    for opcode in sorted(my):
        f = my[opcode]
        kind = KNOWN_OPS.get(f.__name__)
        # the function must come from the factory of the same name in constraints.py (not something renamed to look like it)
        if kind is None or f.__module__ != "pycoin.solve.constraints" or not f.__qualname__.startswith("make_op_" + kind + "."):
            k = '.unknown "%s"' % f.__qualname__
        else:
            k = "." + kind
        rows.append("(%d, %s, %d)" % (opcode, k, int(getattr(f, "stack_size", 0))))
    out.append("def tweaked : List (Nat × SymOp × Nat) := [%s]\n" % ", ".join(rows))

    out.append("/-- a solver registered with `ConstraintSolver.register_solver`, identified by factory name and pattern shape -/")
    out.append("inductive SolverId | hashLookup | constantEquality | signing | unknown (name : String)")
    out.append("  deriving DecidableEq, Repr\n")
    ids = []
    for pattern, factory in BitcoinConstraintSolver._solvers_for_patterns.items():
        key = (factory.__name__, _pat(pattern))
        k = KNOWN_PATTERNS.get(key)
        ids.append("." + k if k else '.unknown "%s %s"' % key)
    out.append("/-- `BitcoinConstraintSolver._solvers_for_patterns` in registration order (the order `solutions_for_constraint` tries them) -/")
    out.append("def solverOrder : List SolverId := [%s]\n" % ", ".join(ids))

    out.append("/-- `check_solution(tx_context, traceback_f=…)` is called without flags: `DEFAULT_FLAGS` -/")
    out.append("def runFlags : Nat := %d" % BitcoinSolutionChecker.DEFAULT_FLAGS)
    out.append("\nend Pycoin.Gen.Solve\n")
    return {"Solve": "\n".join(out)}
